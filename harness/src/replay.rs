//! `pvx replay <file>`: re-executes one recorded case without the explorer, twice, asserts
//! identical observations and prints them.

use std::sync::Arc;

use serde_json::Value;

use crate::exec::{Dir, ExecCfg, Fault, Mutation, run_default, run_digest};
use crate::explore::{Dev, run_schedule};
use crate::mpcrun::{MpcCase, mpc_body};

fn hex(s: &str) -> Vec<u8> {
    (0..s.len() / 2).map(|i| u8::from_str_radix(&s[2 * i..2 * i + 2], 16).unwrap_or(0)).collect()
}

pub fn main(path: &str) -> i32 {
    let Ok(txt) = std::fs::read_to_string(path) else {
        println!("cannot read {path}");
        return 2;
    };
    let Ok(v) = serde_json::from_str::<Value>(&txt) else {
        println!("{path} is not JSON");
        return 2;
    };
    println!("property={} class={}", v["property"], v["class"]);
    println!("detail={}", v["detail"]);
    let c = &v["case"];
    let kind = c["kind"].as_str().unwrap_or("");
    match kind {
        "mpc_case" | "fault" | "tap" | "c12" | "c12_shape" | "c09" => {
            let Ok(case) = serde_json::from_value::<MpcCase>(c["case"].clone()) else {
                println!("no mpc case in file");
                return 2;
            };
            let seed = c["seed"].as_u64().unwrap_or(1);
            let mut ec = ExecCfg::new(case.n(), seed);
            if let Some(cap) = c.get("capacity") {
                ec.capacity = cap.as_u64().map(|x| x as usize);
            }
            let corrupted = c["corrupted"].as_u64().unwrap_or(0) as usize;
            if let Some(fs) = c["faults"].as_array() {
                for f in fs {
                    ec.faults.push(Fault {
                        party: corrupted,
                        dir: Dir::Send,
                        peer: f["to"].as_u64().unwrap_or(0) as usize,
                        label: f["label"].as_str().unwrap_or("").to_string(),
                        ord: f["ord"].as_u64().unwrap_or(0) as usize,
                        mutation: Mutation::Replace(Arc::new(hex(f["bytes_hex"].as_str().unwrap_or("")))),
                    });
                }
            }
            if kind == "tap" {
                let names: Vec<String> = match &c["tap"] {
                    Value::String(s) => vec![s.clone()],
                    Value::Array(a) => a.iter().filter_map(|x| x.as_str().map(|s| s.to_string())).collect(),
                    _ => vec![],
                };
                for name in names {
                    ec.taps.push(crate::hooks::TapSpec {
                        party: corrupted,
                        name,
                        occ: Some(c["occ"].as_u64().unwrap_or(0) as usize),
                        f: Arc::new(|h: &mut polytune::verif::Hook<'_>| match h {
                            polytune::verif::Hook::Bools(b) if !b.is_empty() => b[0] = !b[0],
                            polytune::verif::Hook::Bytes(b) if !b.is_empty() => b[0] ^= 1,
                            polytune::verif::Hook::BoolVecs(v) => {
                                if let Some(x) = v.iter_mut().find(|x| !x.is_empty()) {
                                    x[0] = !x[0]
                                }
                            }
                            _ => {}
                        }),
                    });
                }
            }
            let devs: Vec<Dev> = serde_json::from_value(c["deviations"].clone()).unwrap_or_default();
            let run = |ec: &ExecCfg| {
                if devs.is_empty() {
                    run_default(ec, mpc_body(&case, 990))
                } else {
                    run_schedule(ec, mpc_body(&case, 990), &devs, u32::MAX).result
                }
            };
            let r1 = run(&ec);
            let r2 = run(&ec);
            if run_digest(&r1) != run_digest(&r2) {
                println!("MACHINERY-ERROR replay is not deterministic");
                return 2;
            }
            println!("case: {}", case.show());
            println!("expected (honest): {}", crate::util::bits(&case.expected()));
            for (p, o) in r1.outcomes.iter().enumerate() {
                println!("party {p}: {o:?}");
            }
            println!("deadlock={} messages={} max_outstanding={} faults_applied={:?}", r1.deadlock, r1.msgs.len(), r1.max_outstanding, r1.faults_hit);
            0
        }
        k if k.starts_with("srv") => {
            let n = c["n"].as_u64().unwrap_or(2) as usize;
            let leader = c["leader"].as_u64().unwrap_or(0) as usize;
            let consts: Vec<usize> = c["consts_from"].as_array().map(|a| a.iter().filter_map(|x| x.as_u64().map(|y| y as usize)).collect()).unwrap_or_default();
            let outs: Vec<bool> = c["outputs"].as_array().map(|a| a.iter().filter_map(|x| x.as_bool()).collect()).unwrap_or_else(|| vec![true; n]);
            let history: Vec<crate::srv::Ev> = serde_json::from_value(c["history"].clone()).unwrap_or_default();
            if history.is_empty() {
                println!("this case is replayed by re-running its check (deterministic enumeration); no history recorded");
                return 0;
            }
            crate::srv::REPLAY_OUTPUT_YIELDS.store(c["output_yields"].as_u64().unwrap_or(0) as u8, std::sync::atomic::Ordering::Relaxed);
            let (sp, expected) = crate::checks::c13::spec(n, leader, &consts, outs);
            let pols = vec![crate::srv::make_policies(&sp, crate::srv::comp_id(1, 1))];
            let policy = if history.iter().any(|e| matches!(e, crate::srv::Ev::Msg { .. })) { crate::srv::MsgPolicy::Explicit } else { crate::srv::MsgPolicy::Eager };
            match crate::srv::run_history(n, 1, pols, history, policy, 1, false) {
                Ok(s) => {
                    println!("expected result: {expected}");
                    println!("outputs (party, result, completed at): {:?}", s.outputs.iter().map(|o| (o.party, o.result.clone(), o.seq)).collect::<Vec<_>>());
                    println!("calls (what, party, result, returned at): {:?}", s.calls.iter().map(|c| (c.what.clone(), c.party, c.result.clone(), c.seq)).collect::<Vec<_>>());
                    println!("alive: {:?} permits: {:?} panicked: {:?}", s.actors_alive, s.permits, s.actors_finished.iter().filter(|a| a.2).collect::<Vec<_>>());
                    0
                }
                Err(e) => {
                    println!("MACHINERY-ERROR {e}");
                    2
                }
            }
        }
        _ => {
            println!("this case is replayed by re-running its check: every case of this check is enumerated deterministically from VERIF_SEED");
            0
        }
    }
}
