//! Deviation-bounded stateless exploration of schedules on the real code (C12 tier 1).
//!
//! Default policy: take the first enabled action in canonical order (deliveries first, then the
//! lowest-numbered woken party) that is not currently starved.  A deviation (cost 1 each) is either
//! `Swap(k)`: take the k-th enabled action once, or `Starve(a)`: postpone action `a` until nothing
//! else is enabled.  All schedules with at most `bound` deviations are enumerated; a visited set of
//! execution states (with the largest remaining budget seen) prunes re-exploration from states
//! whose futures were already covered.

use std::collections::HashMap;
use std::sync::Mutex;
use std::sync::atomic::{AtomicU64, Ordering};

use serde::{Deserialize, Serialize};

use crate::exec::{Action, Body, ExecCfg, Execution, RunResult};

#[derive(Clone, Copy, Debug, PartialEq, Eq, Serialize, Deserialize)]
pub enum DevKind {
    Swap(u8),
    Starve(Action),
    /// poll a party that has not been woken (spurious wake-up)
    Spurious(u8),
}

#[derive(Clone, Copy, Debug, PartialEq, Eq, Serialize, Deserialize)]
pub struct Dev {
    pub step: u32,
    pub kind: DevKind,
}

pub struct StepInfo {
    pub enabled: Vec<Action>,
    pub starved: Vec<Action>,
    pub key: u128,
    /// unfinished parties that are not woken at this point
    pub idle: Vec<u8>,
}

pub struct Explored<T> {
    pub result: RunResult<T>,
    pub steps: Vec<StepInfo>,
}

/// Runs one schedule (default policy + deviations), recording per-step state keys from
/// `record_from` on.
pub fn run_schedule<T: Send + 'static>(cfg: &ExecCfg, body: Body<T>, devs: &[Dev], record_from: u32) -> Explored<T> {
    let mut starved: Vec<Action> = vec![];
    let mut steps: Vec<StepInfo> = vec![];
    let mut step = 0u32;
    let mut di = 0usize;
    let result = crate::exec::run(
        cfg,
        body,
        &mut |en: &[Action], ex: &Execution<T>| {
            // drop starved actions that are no longer enabled?  No: a starved delivery stays starved
            // until it is forced; a starved action that is not enabled is simply irrelevant.
            let mut kind = None;
            if di < devs.len() && devs[di].step == step {
                kind = Some(devs[di].kind);
                di += 1;
            }
            if step >= record_from {
                let idle: Vec<u8> = (0..ex.n as u8).filter(|p| ex.outcomes[*p as usize].is_none() && !en.contains(&Action::Run(*p))).collect();
                steps.push(StepInfo {
                    enabled: en.to_vec(),
                    starved: starved.clone(),
                    key: ex.state_key() ^ starved_hash(&starved),
                    idle,
                });
            }
            if let Some(DevKind::Starve(a)) = kind
                && !starved.contains(&a)
            {
                starved.push(a);
            }
            let choice = match kind {
                Some(DevKind::Spurious(p)) => en.len() + p as usize,
                Some(DevKind::Swap(k)) => {
                    assert!((k as usize) < en.len(), "replay divergence: swap index {k} of {} at step {step}", en.len());
                    k as usize
                }
                _ => {
                    match en.iter().position(|a| !starved.contains(a)) {
                        Some(i) => i,
                        None => {
                            // only starved actions are enabled: release the first one
                            let a = en[0];
                            starved.retain(|s| *s != a);
                            0
                        }
                    }
                }
            };
            step += 1;
            choice
        },
        false,
    );
    assert!(di == devs.len() || result.deadlock || result.cap_hit, "replay divergence: deviation at step {} beyond end of run ({} steps)", devs[di.min(devs.len() - 1)].step, step);
    Explored { result, steps }
}

fn starved_hash(s: &[Action]) -> u128 {
    let mut v: Vec<Action> = s.to_vec();
    v.sort();
    let mut h = 0u64;
    for a in v {
        let code = match a {
            Action::Deliver(i, j) => 0x100 | ((i as u64) << 4) | j as u64,
            Action::Run(p) => 0x200 | p as u64,
        };
        h = crate::exec::mix(h, code);
    }
    ((h as u128) << 64) | h.rotate_left(29) as u128
}

pub fn options(info: &StepInfo) -> Vec<DevKind> {
    let mut v = vec![];
    let free: Vec<usize> = (0..info.enabled.len()).filter(|i| !info.starved.contains(&info.enabled[*i])).collect();
    let default = free.first().copied().unwrap_or(0);
    for k in 0..info.enabled.len() {
        if k != default {
            v.push(DevKind::Swap(k as u8));
        }
    }
    if free.len() >= 2 {
        for &k in &free {
            v.push(DevKind::Starve(info.enabled[k]));
        }
    }
    for p in &info.idle {
        v.push(DevKind::Spurious(*p));
    }
    v
}

#[derive(Default)]
pub struct Stats {
    pub schedules: AtomicU64,
    pub transitions: AtomicU64,
    pub pruned_points: AtomicU64,
    pub choice_points: AtomicU64,
    pub max_enabled: AtomicU64,
}

pub struct Explorer<'a, T> {
    pub cfg: ExecCfg,
    pub body: Body<T>,
    pub bound: u32,
    pub visited: Mutex<HashMap<u128, u8>>,
    pub stats: Stats,
    /// called for every execution; returns Err(description) on an oracle failure
    pub check: &'a (dyn Fn(&RunResult<T>) -> Result<(), String> + Sync),
    pub failures: Mutex<Vec<(Vec<Dev>, String)>>,
    pub final_hists: Mutex<std::collections::HashSet<Vec<u64>>>,
    pub budget: &'a crate::util::Budget,
    pub capped: std::sync::atomic::AtomicBool,
    pub max_failures: usize,
    /// also enumerate spurious polls of idle parties as deviations
    pub spurious: bool,
}

impl<'a, T: Send + 'static> Explorer<'a, T> {
    fn visit(&self, devs: &[Dev], left: u32, out_children: &mut Vec<Vec<Dev>>) {
        let from = devs.last().map(|d| d.step + 1).unwrap_or(0);
        let ex = run_schedule(&self.cfg, self.body.clone(), devs, if left > 0 { from } else { u32::MAX });
        self.stats.schedules.fetch_add(1, Ordering::Relaxed);
        self.stats.transitions.fetch_add(ex.result.actions as u64, Ordering::Relaxed);
        self.final_hists.lock().unwrap().insert(ex.result.hists.clone());
        if let Err(e) = (self.check)(&ex.result) {
            let mut f = self.failures.lock().unwrap();
            if f.len() < self.max_failures {
                f.push((devs.to_vec(), e));
            }
        }
        if left == 0 {
            return;
        }
        for (i, info) in ex.steps.iter().enumerate() {
            let step = from + i as u32;
            self.stats.choice_points.fetch_add(1, Ordering::Relaxed);
            self.stats.max_enabled.fetch_max(info.enabled.len() as u64, Ordering::Relaxed);
            {
                let mut vis = self.visited.lock().unwrap();
                match vis.get(&info.key) {
                    Some(b) if *b as u32 >= left => {
                        self.stats.pruned_points.fetch_add(1, Ordering::Relaxed);
                        continue;
                    }
                    _ => {
                        vis.insert(info.key, left as u8);
                    }
                }
            }
            for kind in options(info).into_iter().filter(|k| self.spurious || !matches!(k, DevKind::Spurious(_))) {
                let mut d = devs.to_vec();
                d.push(Dev { step, kind });
                out_children.push(d);
            }
        }
    }

    /// Explore everything within the bound.  Children of one level are run in parallel.
    pub fn explore(&self) {
        let mut level: Vec<Vec<Dev>> = vec![vec![]];
        let mut left = self.bound;
        loop {
            let next: Mutex<Vec<Vec<Dev>>> = Mutex::new(vec![]);
            let stop = std::sync::atomic::AtomicBool::new(false);
            crate::util::par_map_until(
                &level,
                |_, _, devs| {
                    if self.budget.exhausted() {
                        self.capped.store(true, Ordering::Relaxed);
                        stop.store(true, Ordering::Relaxed);
                        return;
                    }
                    let mut ch = vec![];
                    self.visit(devs, left, &mut ch);
                    next.lock().unwrap().extend(ch);
                },
                &stop,
            );
            if left == 0 || self.capped.load(Ordering::Relaxed) {
                break;
            }
            left -= 1;
            level = next.into_inner().unwrap();
            level.sort_by(|a, b| {
                let ka: Vec<(u32, String)> = a.iter().map(|d| (d.step, format!("{:?}", d.kind))).collect();
                let kb: Vec<(u32, String)> = b.iter().map(|d| (d.step, format!("{:?}", d.kind))).collect();
                ka.cmp(&kb)
            });
            if level.is_empty() {
                break;
            }
        }
    }
}
