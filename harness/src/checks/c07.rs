//! C07 - a party's global key stays secret, in honest runs and under attack.

use std::collections::HashSet;
use std::hash::{BuildHasherDefault, Hasher};

#[derive(Default)]
pub struct FoldHasher(u64);

impl Hasher for FoldHasher {
    fn finish(&self) -> u64 {
        self.0
    }
    fn write(&mut self, b: &[u8]) {
        for c in b.chunks(8) {
            let mut a = [0u8; 8];
            a[..c.len()].copy_from_slice(c);
            self.0 = (self.0.rotate_left(23) ^ u64::from_le_bytes(a)).wrapping_mul(0x9E3779B97F4A7C15);
        }
    }
    fn write_u128(&mut self, x: u128) {
        self.0 = ((x as u64) ^ ((x >> 64) as u64).rotate_left(31)).wrapping_mul(0x9E3779B97F4A7C15);
    }
}

type FastSet = HashSet<u128, BuildHasherDefault<FoldHasher>>;
type FastMap = std::collections::HashMap<u128, (u32, u32), BuildHasherDefault<FoldHasher>>;
use std::sync::Arc;

use polytune::verif::Hook;
use serde_json::json;

use crate::campaign::{Config, FCase, faults_of, gen_cases, make_config, replay_json, tape_seed};
use crate::circuits::feature_circuits;
use crate::exec::{Dir, ExecCfg, Fault, MsgRec, Mutation, RunResult, run_default};
use crate::hooks::{ProbeVal, TapSpec};
use crate::mpcrun::{MpcCase, check_honest, mpc_body};
use crate::schema::{NodeMut, Ty, Val, decode_msg};
use crate::util::{Report, Tier, par_map};

fn delta_of(r: &RunResult<Vec<bool>>, p: usize) -> Option<u128> {
    r.probes.iter().find(|x| x.party == p && x.name == "delta").and_then(|x| match &x.val {
        ProbeVal::U128s(v) => v.first().copied(),
        _ => None,
    })
}

fn collect_fields(v: &Val, out: &mut Vec<u128>) {
    match v {
        Val::U128(x) => out.push(*x),
        Val::Raw(r) if r.len() == 16 => {
            out.push(u128::from_le_bytes(r.clone().try_into().unwrap()));
            out.push(u128::from_be_bytes(r.clone().try_into().unwrap()));
        }
        Val::Vec(xs) | Val::Tup(xs) => xs.iter().for_each(|x| collect_fields(x, out)),
        Val::Opt(Some(x)) => collect_fields(x, out),
        _ => {}
    }
    let _ = Ty::Bool;
}

/// Byte strings of the pool: every message on the wire of this execution (as sent), plus, as
/// advice, what the peers hold in the honest execution of the same tape.
fn pool<'a>(r: &'a RunResult<Vec<bool>>, advice: Option<&'a RunResult<Vec<bool>>>, victim: usize) -> Vec<&'a MsgRec> {
    let mut v: Vec<&MsgRec> = r.msgs.iter().collect();
    if let Some(a) = advice {
        v.extend(a.msgs.iter().filter(|m| m.from != victim));
    }
    v
}

#[derive(Default)]
pub struct LeakStats {
    pub windows: u64,
    pub fields: u64,
}

/// The key-leak monitor.  Err = (class, description).
pub fn leak_monitor(r: &RunResult<Vec<bool>>, advice: Option<&RunResult<Vec<bool>>>, victim: usize, d: u128, triples: bool, st: &mut LeakStats) -> Result<(), (String, String)> {
    let msgs = pool(r, advice, victim);
    // (1) + (2): 128-bit windows at every byte offset, both byte orders
    let mut windows: FastSet = FastSet::default();
    let mut origin: FastMap = FastMap::default();
    for (mi, m) in msgs.iter().enumerate() {
        let b = &m.bytes;
        if b.len() < 16 {
            continue;
        }
        for off in 0..=b.len() - 16 {
            let arr: [u8; 16] = b[off..off + 16].try_into().unwrap();
            for w in [u128::from_le_bytes(arr), u128::from_be_bytes(arr)] {
                if w == d {
                    return Err(("key_on_wire".into(), format!("the global key of party {victim} occurs in message {:?} {}->{} at byte offset {off}", m.label, m.from, m.to)));
                }
                if windows.insert(w) {
                    origin.insert(w, (mi as u32, off as u32));
                }
            }
        }
    }
    st.windows += windows.len() as u64;
    for w in &windows {
        let other = w ^ d;
        if other != *w && windows.contains(&other) {
            let (m1, o1) = origin[w];
            let (m2, o2) = origin[&other];
            let (m1, m2) = (m1 as usize, m2 as usize);
            let mut labs = [msgs[m1].label.clone(), msgs[m2].label.clone()];
            labs.sort();
            return Err((
                format!("two_values_xor_to_key:{}^{}", labs[0], labs[1]),
                format!(
                    "two 128-bit values XOR to the global key of party {victim}: {:?} {}->{} offset {o1} and {:?} {}->{} offset {o2}",
                    msgs[m1].label, msgs[m1].from, msgs[m1].to, msgs[m2].label, msgs[m2].from, msgs[m2].to
                ),
            ));
        }
    }
    // (3) three decoded 128-bit fields
    if triples {
        let mut fields: Vec<u128> = vec![];
        for m in &msgs {
            if let Ok(v) = decode_msg(&m.label, &m.bytes) {
                collect_fields(&v, &mut fields);
            }
        }
        fields.sort();
        fields.dedup();
        st.fields += fields.len() as u64;
        let set: FastSet = fields.iter().copied().collect();
        // cap the quadratic part; the decoded fields of one small execution are a few thousand
        let lim = fields.len().min(6000);
        for i in 0..lim {
            for j in i + 1..lim {
                let t = fields[i] ^ fields[j] ^ d;
                if t != fields[i] && t != fields[j] && set.contains(&t) {
                    return Err(("three_values_xor_to_key".into(), format!("three decoded 128-bit fields XOR to the global key of party {victim}: {:#x} ^ {:#x} ^ {:#x}", fields[i], fields[j], t)));
                }
            }
        }
    }
    Ok(())
}

/// Label census: for every AND gate and garbler, exactly one of the four garbled rows authenticates
/// under the labels the evaluator holds (re-derived from the 'labels' messages, the free-gate rules
/// and the evaluator-label probe).  Returns the number of (gate, garbler) pairs checked.
pub fn label_census(case: &MpcCase, r: &RunResult<Vec<bool>>) -> Result<u32, String> {
    use crate::circuits::G;
    let n = case.n();
    let e = case.p_eval;
    let mut checked = 0;
    for g in (0..n).filter(|g| *g != e) {
        // labels of input wires as sent by garbler g
        let Some(lm) = r.msgs.iter().find(|m| m.from == g && m.to == e && m.label == "labels") else { return Err("no labels message".into()) };
        let Val::Vec(items) = decode_msg("labels", &lm.bytes)? else { unreachable!() };
        let mut held: Vec<Option<u128>> = vec![None; case.circ.max_reg];
        // garbled gates of g in AND order (possibly several chunks)
        let mut gates: Vec<Vec<Vec<u8>>> = vec![];
        for m in r.msgs.iter().filter(|m| m.from == g && m.to == e && m.label == "preprocessed gates") {
            let Val::Vec(gs) = decode_msg("preprocessed gates", &m.bytes)? else { unreachable!() };
            for gate in gs {
                let Val::Tup(rows) = gate else { unreachable!() };
                gates.push(rows.iter().map(|row| match row { Val::Vec(b) => b.iter().map(|x| if let Val::U8(v) = x { *v } else { 0 }).collect(), _ => vec![] }).collect());
            }
        }
        let mut and_idx = 0;
        let mut all_held: Vec<(usize, u128)> = vec![];
        for (w, (out, gate)) in case.circ.insts.iter().enumerate() {
            let l = match *gate {
                G::In(..) => match &items[*out as usize] {
                    Val::Opt(Some(x)) => match **x { Val::U128(v) => Some(v), _ => None },
                    _ => return Err(format!("garbler {g} sent no label for input wire r{out}")),
                },
                G::Xor(a, b) => Some(held[a as usize].ok_or("label missing")? ^ held[b as usize].ok_or("label missing")?),
                G::Not(a) => held[a as usize],
                G::And(a, b) => {
                    let (lx, ly) = (held[a as usize].ok_or("label missing")?, held[b as usize].ok_or("label missing")?);
                    let rows = gates.get(and_idx).ok_or("garbled gate missing")?;
                    let mut opens = 0;
                    for (row, ct) in rows.iter().enumerate() {
                        // the engine's own row decryption (so that the census does not depend on how the
                        // row key is derived from the two labels)
                        if polytune::verif::open_garbled_row(lx, ly, w, row as u8, ct).is_some() {
                            opens += 1;
                        }
                    }
                    checked += 1;
                    if opens != 1 {
                        return Err(format!("AND gate at instruction {w}: {opens} of the 4 rows of garbler {g} authenticate under the labels the evaluator holds"));
                    }
                    and_idx += 1;
                    // label of the AND output for garbler g, as computed by the evaluator
                    r.probes.iter().find(|p| p.party == e && p.name == "eval_label" && matches!(&p.val, ProbeVal::U128s(v) if v.len() == 3 && v[0] == w as u128 && v[1] == g as u128)).and_then(|p| match &p.val { ProbeVal::U128s(v) => Some(v[2]), _ => None })
                }
            };
            held[*out as usize] = l;
            if let Some(l) = l {
                all_held.push((w, l));
            }
        }
        // "the evaluator holds exactly one label per wire and garbler": no two labels it ever holds for
        // garbler g (on any two wires, in any two chunks of gates) differ by g's global key
        if let Some(d) = delta_of(r, g) {
            let by_val: std::collections::HashMap<u128, usize> = all_held.iter().map(|(w, l)| (*l, *w)).collect();
            for (w, l) in &all_held {
                if let Some(w2) = by_val.get(&(l ^ d)) {
                    return Err(format!("the labels the evaluator holds for garbler {g} at instructions {w2} and {w} XOR to garbler {g}'s global key"));
                }
            }
        }
    }
    Ok(checked)
}

fn probed_run(case: &MpcCase, seed: u64, faults: Vec<Fault>, taps: Vec<TapSpec>, w: usize) -> RunResult<Vec<bool>> {
    let mut ec = ExecCfg::new(case.n(), seed);
    ec.record_probes = true;
    ec.faults = faults;
    ec.taps = taps;
    run_default(&ec, mpc_body(case, 850 + w))
}

pub fn main(tier: Tier, seed: u64) -> i32 {
    let mut rep = Report::new("C07", tier, seed, "fault_enumeration");
    if let Err(e) = super::selftest::determinism(seed) {
        rep.machinery(e);
        return rep.finish();
    }
    let mut st = LeakStats::default();
    // ---- (i) honest runs ------------------------------------------------------------------------
    let mut honest_cases = vec![];
    for n in [2usize, 3, 4] {
        let feats = feature_circuits(n);
        // circuits with NOT on inputs, on AND outputs and on output wires
        for fi in if n == 4 { vec![3usize] } else if tier.is_thorough() { vec![1, 2, 3, 6, 7] } else { vec![3, 6] } {
            let (name, c) = &feats[fi];
            let evals: Vec<usize> = if n == 2 || tier.is_thorough() { (0..n).collect() } else { vec![0, n - 1] };
            for p_eval in evals {
                for mask in if tier.is_thorough() || n == 2 { (0..(1u64 << c.total_inputs().min(3))).collect::<Vec<_>>() } else { vec![0b101] } {
                    honest_cases.push((format!("{name}/n{n}/e{p_eval}"), MpcCase { inputs: c.inputs_from_mask(mask), circ: c.clone(), p_eval, p_out: (0..n).collect(), tmp_mask: 0 }));
                }
            }
        }
    }
    // several chunks of garbled gates (more than 1000 AND gates)
    for (n, p_eval) in if tier.is_thorough() { vec![(2usize, 0usize), (2, 1), (3, 1), (3, 2)] } else { vec![(2, 0), (2, 1), (3, 1)] } {
        let c = crate::circuits::and_chain(n, 1100);
        honest_cases.push((format!("chain1100/n{n}/e{p_eval}"), MpcCase { inputs: c.inputs_from_mask(0b111), circ: c, p_eval, p_out: (0..n).collect(), tmp_mask: 0 }));
    }
    let hres = par_map(&honest_cases, |w, i, (_, case)| {
        let r = probed_run(case, tape_seed(seed, 7000 + i as u64), vec![], vec![], w);
        let ok = check_honest(case, &r);
        let mut st = LeakStats::default();
        let mut leaks = vec![];
        for v in 0..case.n() {
            match delta_of(&r, v) {
                Some(d) => {
                    // 3-element sets only for the small circuits (quadratic in the number of fields)
                    if let Err(e) = leak_monitor(&r, None, v, d, case.circ.insts.len() < 500, &mut st) {
                        leaks.push(e);
                    }
                }
                None => leaks.push(("MACHINERY".into(), "delta probe missing".into())),
            }
        }
        let census = label_census(case, &r);
        (ok, leaks, st.windows, st.fields, census)
    });
    let mut census_checked = 0u64;
    for ((name, case), (ok, leaks, w, f, census)) in honest_cases.iter().zip(hres.iter()) {
        match census {
            Ok(k) => census_checked += *k as u64,
            Err(e) => rep.violation("honest:label_census", format!("{name}: {e}"), json!({"kind":"mpc_case","case":case})),
        }
        rep.evaluations += 1;
        st.windows += w;
        st.fields += f;
        if let Err(e) = ok {
            rep.violation("honest_run_failed", format!("{name}: {e}"), json!({"kind":"mpc_case","case":case}));
        }
        for (class, d) in leaks {
            if class == "MACHINERY" {
                rep.machinery(d.clone());
            } else {
                rep.violation(format!("honest:{class}"), format!("{name}: {d}"), json!({"kind":"mpc_case","case":case}));
            }
        }
    }
    rep.set("honest_runs", json!(honest_cases.len()));
    rep.set("label_census_gate_garbler_pairs", json!(census_checked));

    // ---- (ii) under attack: every single alteration that keeps the run going --------------------
    let mut cfgs: Vec<Config> = vec![];
    for (n, corrupted, p_eval) in if tier.is_thorough() { vec![(2usize, 1usize, 0usize), (2, 0, 0), (2, 1, 1), (3, 1, 0), (3, 0, 0)] } else { vec![(2, 1, 0), (2, 0, 0), (3, 1, 0)] } {
        let c = super::c08::circuit(n);
        let case = MpcCase { inputs: c.inputs_from_mask(0b011), circ: c, p_eval, p_out: (0..n).collect(), tmp_mask: 0 };
        match make_config(case, corrupted, tape_seed(seed, 7500 + (n * 100 + corrupted * 10 + p_eval) as u64), true) {
            Ok(c) => cfgs.push(c),
            Err(e) => rep.machinery(e),
        }
    }
    let cap = if tier.is_thorough() { 6 } else { 2 };
    let all_cases: Vec<FCase> = gen_cases(&cfgs, cap, false, &|_| true, true).unwrap_or_default();
    let cases: Vec<FCase> = all_cases
        .into_iter()
        .filter(|c| tier.is_thorough() || matches!(c.muts[0].node, Some(NodeMut::FlipBool) | Some(NodeMut::XorLow) | Some(NodeMut::SomeToNone) | Some(NodeMut::XorByte(0)) | Some(NodeMut::VecEmpty)))
        .collect();
    let ares = par_map(&cases, |w, _, c| {
        let cfg = &cfgs[c.cfg];
        let faults = faults_of(cfg, c);
        let first_t = c.msgs.iter().map(|mi| cfg.honest.msgs[*mi].t_sent).min().unwrap_or(0);
        let r = probed_run(&cfg.case, cfg.seed, faults, vec![], w);
        let n = cfg.case.n();
        let mut st = LeakStats::default();
        let mut leaks = vec![];
        let mut continued = false;
        for v in (0..n).filter(|v| *v != cfg.corrupted) {
            // the deviation keeps the run going if the victim still sends something after it
            if r.msgs.iter().any(|m| m.from == v && m.t_sent > first_t) {
                continued = true;
            }
            if r.msgs.iter().any(|m| m.from == v && m.t_sent > first_t)
                && let Some(d) = delta_of(&r, v)
                && let Err(e) = leak_monitor(&r, Some(&cfg.honest), v, d, false, &mut st)
            {
                leaks.push(e);
            }
        }
        (continued, leaks, st.windows)
    });
    let mut continued_runs = 0u64;
    for (c, (continued, leaks, w)) in cases.iter().zip(ares.iter()) {
        rep.evaluations += 1;
        st.windows += w;
        if *continued {
            continued_runs += 1;
        }
        for (class, d) in leaks {
            rep.violation(format!("attack:{class}"), format!("{} -> {d}", c.desc), replay_json(&cfgs[c.cfg], c));
        }
    }
    rep.set("attack_runs", json!({"total": cases.len(), "victim_kept_sending_after_the_fault": continued_runs}));

    // ---- (iii) scripted persistent attacker: misreported check bit, reply fixed up --------------
    // The corrupted party flips bit r of its aShare decommitment consistently (tap: committed and
    // sent alike) and rewrites the opened key sum it receives to the value its own code expects, so
    // that the corrupted code path keeps going.
    // single lies and pairs of lies within one aShare call (two lies cancel in an accumulated check)
    let mut scripted: Vec<(usize, Vec<usize>)> = vec![];
    for (ci, _cfg) in cfgs.iter().enumerate() {
        for occs in [vec![0usize], vec![17], vec![39], vec![3, 17], vec![0, 39], vec![5, 6, 7, 8]] {
            scripted.push((ci, occs));
        }
    }
    let sres = par_map(&scripted, |w, _, (ci, occs)| {
        let cfg = &cfgs[*ci];
        let n = cfg.case.n();
        let taps: Vec<TapSpec> = occs
            .iter()
            .map(|occ| TapSpec {
                party: cfg.corrupted,
                name: "fashare_dm".into(),
                occ: Some(*occ),
                f: Arc::new(|h: &mut Hook<'_>| {
                    if let Hook::Bytes(b) = h {
                        b[0] ^= 1;
                    }
                }),
            })
            .collect();
        // fix-up: every 'fashare di_bi' the corrupted party receives is replaced by the honest-run
        // value (same tape), which is what its unmodified checks expect
        let mut faults = vec![];
        for m in cfg.honest.msgs.iter().filter(|m| m.to == cfg.corrupted && m.label == "fashare di_bi" && m.ord == 0) {
            faults.push(Fault { party: cfg.corrupted, dir: Dir::Recv, peer: m.from, label: m.label.clone(), ord: m.ord, mutation: Mutation::Replace(m.bytes.clone()) });
        }
        let r = probed_run(&cfg.case, cfg.seed, faults, taps, w);
        let mut leaks = vec![];
        let mut st = LeakStats::default();
        for v in (0..n).filter(|v| *v != cfg.corrupted) {
            if let Some(d) = delta_of(&r, v)
                && let Err(e) = leak_monitor(&r, Some(&cfg.honest), v, d, true, &mut st)
            {
                leaks.push(e);
            }
        }
        let outs: Vec<String> = r.outcomes.iter().map(|o| o.kind().to_string()).collect();
        (leaks, outs)
    });
    for ((ci, occ), (leaks, outs)) in scripted.iter().zip(sres.iter()) {
        let occ = format!("{occ:?}");
        rep.evaluations += 1;
        let cfg = &cfgs[*ci];
        for (class, d) in leaks {
            rep.violation(format!("scripted_check_bit_lie:{class}"), format!("{}: check bit(s) #{occ} misreported, reply fixed up; outcomes {outs:?} -> {d}", cfg.name), json!({"kind":"tap","case":cfg.case,"corrupted":cfg.corrupted,"seed":cfg.seed,"tap":"fashare_dm","occ":occ}));
        }
        if rep.samples.len() < 3 {
            rep.sample(json!({"scripted_attack": format!("{}: corrupted party misreports check bit(s) #{occ} of its aShare decommitment (consistently) and fixes up the reply", cfg.name), "outcomes": outs}));
        }
    }
    rep.sample(json!({"honest_run": honest_cases[0].1.show(), "monitor": "key at no byte offset (LE/BE); no two 128-bit windows and no three decoded fields XOR to the key"}));
    rep.distinct_nontrivial = honest_cases.len() as u64 + continued_runs + scripted.len() as u64;
    rep.exhaustive = Some(true);
    rep.set("windows_indexed", json!(st.windows));
    rep.set("decoded_fields_indexed", json!(st.fields));
    rep.rule = "pool = every message on the wire of the execution (as sent) plus, under attack, what the peers hold in the honest execution of the same tape; with d = the victim's probed key: d at no byte offset in either byte order; no two 128-bit windows (all byte offsets, both orders) XOR to d; no three decoded 128-bit fields XOR to d (honest and scripted runs). Executions: honest runs over circuits with NOT gates on inputs / AND outputs / outputs, n=2..4, all evaluators; every single alteration of the C02/C04 menu (reduced in quick) per corrupted role; the scripted persistent check-bit liar with fixed-up reply. non-trivial = honest runs + attack runs in which the victim kept sending after the fault + scripted runs".into();
    rep.assumptions = vec!["delta is read through a guarded probe".into(), "label census on honest runs: exactly one of the four rows of every (AND gate, garbler) opens under the labels the evaluator holds".into()];
    rep.finish()
}
