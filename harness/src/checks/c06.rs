//! C06 - revealed input bits are hidden by a fresh, unbiased, private mask.

use std::collections::HashSet;

use serde_json::json;

use crate::circuits::{B, Circ};
use crate::exec::{ExecCfg, RunResult, mix, run_default};
use crate::hooks::ProbeVal;
use crate::mpcrun::{MpcCase, check_honest, mpc_body};
use crate::schema::{Val, decode_msg};
use crate::util::{Report, Tier, par_map};

fn run_probed(case: &MpcCase, seed: u64, w: usize) -> RunResult<Vec<bool>> {
    let mut cfg = ExecCfg::new(case.n(), seed);
    cfg.record_probes = true;
    run_default(&cfg, mpc_body(case, w))
}

fn delta_of(r: &RunResult<Vec<bool>>, p: usize) -> Option<u128> {
    r.probes.iter().find(|x| x.party == p && x.name == "delta").and_then(|x| match &x.val {
        ProbeVal::U128s(v) => v.first().copied(),
        _ => None,
    })
}

/// For honest party `h`: masked input bits it broadcast, and its own share of every own input wire
/// = masked ^ input ^ xor of the shares the others sent for that wire.
fn own_shares(case: &MpcCase, r: &RunResult<Vec<bool>>, h: usize) -> Result<Vec<(u32, bool, bool)>, String> {
    let n = case.n();
    let to = (0..n).find(|q| *q != h).unwrap();
    let m = r.msgs.iter().find(|m| m.from == h && m.to == to && m.label == "masked inputs").ok_or("no masked inputs message")?;
    let Val::Vec(masked) = decode_msg("masked inputs", &m.bytes)? else { unreachable!() };
    let mut others: Vec<Vec<Val>> = vec![];
    for q in (0..n).filter(|q| *q != h) {
        let m = r.msgs.iter().find(|m| m.from == q && m.to == h && m.label == "wire shares").ok_or("no wire shares message")?;
        let Val::Vec(v) = decode_msg("wire shares", &m.bytes)? else { unreachable!() };
        others.push(v);
    }
    let mut out = vec![];
    let mut k = 0;
    for (reg, g) in &case.circ.insts {
        if let crate::circuits::G::In(p, i) = g
            && *p as usize == h
        {
            let Val::Opt(Some(mb)) = &masked[*reg as usize] else {
                return Err(format!("masked input for own wire r{reg} is None"));
            };
            let Val::Bool(mb) = **mb else { unreachable!() };
            let mut own = mb ^ case.inputs[h][*i as usize];
            for o in &others {
                let Val::Opt(Some(t)) = &o[*reg as usize] else {
                    return Err(format!("peer sent no share for wire r{reg}"));
                };
                let Val::Tup(t) = &**t else { unreachable!() };
                let Val::Bool(b) = t[0] else { unreachable!() };
                own ^= b;
            }
            out.push((*reg, mb, own));
            k += 1;
        }
    }
    let _ = k;
    Ok(out)
}

fn pack(bits: &[bool], msb: bool) -> Vec<u8> {
    let mut v = vec![0u8; bits.len().div_ceil(8)];
    for (i, b) in bits.iter().enumerate() {
        if *b {
            v[i / 8] |= if msb { 0x80 >> (i % 8) } else { 1 << (i % 8) };
        }
    }
    v
}

/// Does the 128-bit pattern occur in `hay` as bool bytes, or packed (LSB/MSB first) at any bit offset?
fn find_pattern(hay: &[u8], bits: &[bool]) -> Option<String> {
    assert_eq!(bits.len(), 128);
    let as_bytes: Vec<u8> = bits.iter().map(|b| *b as u8).collect();
    if hay.len() >= 128 && hay.windows(128).any(|w| w == as_bytes) {
        return Some("as a run of bool bytes".into());
    }
    for msb in [false, true] {
        let p = pack(bits, msb);
        let target = u128::from_le_bytes(p.clone().try_into().unwrap());
        // sliding 128-bit window over the bit stream, for both in-byte bit orders
        for stream_msb in [false, true] {
            let mut win: u128 = 0;
            let total_bits = hay.len() * 8;
            for i in 0..total_bits {
                let byte = hay[i / 8];
                let bit = if stream_msb { (byte >> (7 - i % 8)) & 1 } else { (byte >> (i % 8)) & 1 };
                win = (win >> 1) | ((bit as u128) << 127);
                if i >= 127 && win == target {
                    return Some(format!("packed ({} first, stream {} first) at bit offset {}", if msb { "MSB" } else { "LSB" }, if stream_msb { "MSB" } else { "LSB" }, i - 127));
                }
            }
        }
    }
    None
}

fn small_circ(layout: &[usize]) -> Circ {
    let mut b = B::new(layout);
    let total: u32 = layout.iter().sum::<usize>() as u32;
    let mut x = 0;
    for r in 1..total {
        x = b.xor(x, r);
    }
    let y = if total >= 2 { b.and(0, total - 1) } else { b.not(0) };
    b.out(&[x, y])
}

/// See step 6 of `main`.  Returns the number of message pairs compared.
fn peer_pad_monitor(r: &crate::exec::RunResult<Vec<bool>>) -> Result<u64, String> {
    let mut pairs = 0u64;
    for (i, a) in r.msgs.iter().enumerate() {
        if !matches!(a.label.as_str(), "CO_OT_s" | "CO_OT_r" | "ALSZ_OT_setup") {
            continue;
        }
        for b in r.msgs[i + 1..].iter().filter(|b| b.from == a.from && b.to != a.to && b.label == a.label && b.ord == a.ord) {
            pairs += 1;
            if a.bytes == b.bytes {
                return Err(format!("party {} sent the same {:?} message (#{}) to parties {} and {}", a.from, a.label, a.ord, a.to, b.to));
            }
            if a.label == "ALSZ_OT_setup" {
                let (Val::Vec(ca), Val::Vec(cb)) = (decode_msg(&a.label, &a.bytes)?, decode_msg(&b.label, &b.bytes)?) else { continue };
                let same = ca.iter().zip(cb.iter()).filter(|(x, y)| x == y).count();
                if same > 0 {
                    return Err(format!("{same} of {} vectors of the OT matrices party {} sent to parties {} and {} (#{}) are identical", ca.len(), a.from, a.to, b.to, a.ord));
                }
            }
        }
    }
    Ok(pairs)
}

/// See step 5 of `main`.  Returns the number of block pairs compared.
fn ot_matrix_monitor(r: &crate::exec::RunResult<Vec<bool>>) -> Result<u64, String> {
    let mut pairs = 0u64;
    for m in r.msgs.iter().filter(|m| m.label == "ALSZ_OT_setup") {
        let crate::schema::Val::Vec(cols) = crate::schema::decode_msg(&m.label, &m.bytes)? else { continue };
        let vecs: Vec<Vec<u8>> = cols
            .iter()
            .map(|c| match c {
                crate::schema::Val::Vec(b) => b.iter().map(|x| if let crate::schema::Val::U8(v) = x { *v } else { 0 }).collect(),
                _ => vec![],
            })
            .collect();
        let Some(len) = vecs.first().map(|v| v.len()) else { continue };
        if vecs.len() < 2 || vecs.iter().any(|v| v.len() != len) {
            continue;
        }
        let blocks = len / 16;
        for a in 0..blocks {
            for b in a + 1..blocks {
                pairs += 1;
                let d = |v: &Vec<u8>| -> Vec<u8> { (0..16).map(|k| v[a * 16 + k] ^ v[b * 16 + k]).collect() };
                let d0 = d(&vecs[0]);
                if vecs.iter().all(|v| d(v) == d0) {
                    return Err(format!("in the OT matrix {} sends to {} (#{}, {} vectors of {len} bytes) the 128-bit blocks {a} and {b} have the same XOR in every vector: that XOR is the sender's own choice bits {}..{} xor {}..{}", m.from, m.to, m.ord, vecs.len(), a * 128, a * 128 + 128, b * 128, b * 128 + 128));
                }
            }
        }
    }
    Ok(pairs)
}

fn canary_circ(n: usize, h: usize) -> Circ {
    let mut lay = vec![1usize; n];
    lay[h] = 128;
    let mut b = B::new(&lay);
    let total: u32 = lay.iter().sum::<usize>() as u32;
    let mut x = 0;
    for r in 1..total {
        x = b.xor(x, r);
    }
    b.out(&[x])
}

const ALLOWED_AFTER: [&str; 4] = ["masked inputs", "broadcast masked inputs", "labels", "lambda"];

pub fn main(tier: Tier, seed: u64) -> i32 {
    let mut rep = Report::new("C06", tier, seed, "exploration");
    if let Err(e) = super::selftest::determinism(seed) {
        rep.machinery(e);
        return rep.finish();
    }
    let ntapes: u64 = if tier.is_thorough() { 4096 } else { 256 };
    let base = seed.wrapping_mul(ntapes);

    // ---- 1. non-interference, exhaustive over the honest party's inputs -------------------------
    let mut ni_cfgs: Vec<(MpcCase, usize)> = vec![];
    for layout in [vec![1usize, 1], vec![2, 1], vec![3, 2], vec![1, 1, 1], vec![2, 1, 2]] {
        let n = layout.len();
        let c = small_circ(&layout);
        for h in 0..n {
            for p_eval in [h, (h + 1) % n] {
                let inputs: Vec<Vec<bool>> = layout.iter().map(|k| vec![true; *k]).collect();
                ni_cfgs.push((MpcCase { circ: c.clone(), inputs, p_eval, p_out: (0..n).collect(), tmp_mask: 0 }, h));
            }
        }
    }
    let mut ni_runs: Vec<(usize, u64)> = vec![];
    for (ci, (case, h)) in ni_cfgs.iter().enumerate() {
        for m in 0..(1u64 << case.circ.inputs[*h]) {
            ni_runs.push((ci, m));
        }
    }
    let ni_res = par_map(&ni_runs, |w, _, (ci, m)| {
        let (case, h) = &ni_cfgs[*ci];
        let mut case = case.clone();
        case.inputs[*h] = (0..case.circ.inputs[*h]).map(|k| (m >> k) & 1 == 1).collect();
        let r = run_probed(&case, mix(base, *ci as u64), w);
        let ok = check_honest(&case, &r);
        (case, r, ok)
    });
    // 6. a party's OT sessions with different peers use independent randomness: what it sends to two
    // peers in the same batch (Chou-Orlandi points, the columns of the OT-extension matrix) never
    // coincides - two peers who pool their views would otherwise hold both pads of a column and unmask
    // the party's choice bits (its mask shares)
    let mut peer_pairs = 0u64;
    for (case, r, ok) in ni_res.iter() {
        if ok.is_ok() && case.n() >= 3 {
            match peer_pad_monitor(r) {
                Ok(k) => peer_pairs += k,
                Err(e) => rep.violation("ot_randomness_reused_across_peers", format!("{}: {e}", case.show()), json!({"kind":"mpc_case","case":case})),
            }
        }
    }
    rep.set("ot_messages_compared_across_peers", json!(peer_pairs));
    // 7. the random padding of the KOS receiver (probe `kos_pad`) is what hides a 128-bit linear hash
    // of its choice bits (= mask shares) inside the consistency-check value: every padding must be
    // fresh (no two sessions alike), not a repetition of one byte, and over all sessions every one
    // of its bit positions must take both values
    {
        // runs of one non-interference configuration share their tape on purpose (they differ in the
        // input only), so paddings are compared inside one execution and then pooled without copies
        let mut pads: Vec<Vec<u8>> = vec![];
        let mut repeated_in_run = 0usize;
        for (_, r, ok) in ni_res.iter() {
            if ok.is_ok() {
                let mine: Vec<Vec<u8>> = r.probes.iter().filter(|p| p.name == "kos_pad").filter_map(|p| if let ProbeVal::Bytes(b) = &p.val { Some(b.clone()) } else { None }).collect();
                let d: HashSet<&Vec<u8>> = mine.iter().collect();
                repeated_in_run += mine.len() - d.len();
                for p in mine {
                    if !pads.contains(&p) {
                        pads.push(p);
                    }
                }
            }
        }
        let some_case = ni_res.first().map(|x| x.0.clone());
        if pads.len() < 64 {
            rep.machinery(format!("only {} KOS paddings probed", pads.len()));
        } else {
            if let Some(p) = pads.iter().find(|p| p.len() >= 4 && p.iter().all(|b| *b == p[0])) {
                rep.violation("kos_padding_low_entropy", format!("a KOS receiver padded its choice bits with {} copies of the byte {:#04x}", p.len(), p[0]), json!({"kind":"mpc_case","case":some_case}));
            }
            if repeated_in_run > 0 {
                rep.violation("kos_padding_repeated", format!("{repeated_in_run} KOS paddings are copies of another session's padding in the same execution"), json!({"kind":"mpc_case","case":some_case}));
            }
            let bits = pads.iter().map(|p| p.len()).min().unwrap_or(0) * 8;
            let stuck: Vec<usize> = (0..bits).filter(|i| pads.iter().all(|p| (p[i / 8] >> (i % 8)) & 1 == (pads[0][i / 8] >> (i % 8)) & 1)).collect();
            if !stuck.is_empty() {
                rep.violation("kos_padding_constant_bits", format!("{} of {bits} padding bit positions never change over {} sessions (e.g. bit {})", stuck.len(), pads.len(), stuck[0]), json!({"kind":"mpc_case","case":some_case}));
            }
        }
        rep.set("kos_paddings_probed", json!(pads.len()));
    }
    let mut ni_checked = 0u64;
    for (ci, (_, h)) in ni_cfgs.iter().enumerate() {
        let runs: Vec<&(MpcCase, RunResult<Vec<bool>>, Result<(), String>)> =
            ni_runs.iter().zip(ni_res.iter()).filter(|((c, _), _)| *c == ci).map(|(_, r)| r).collect();
        let (c0, r0, ok0) = runs[0];
        if let Err(e) = ok0 {
            rep.violation("honest_run_failed", format!("{}: {e}", c0.show()), json!({"kind":"mpc_case","case":c0}));
            continue;
        }
        let sent0: Vec<_> = r0.msgs.iter().filter(|m| m.from == *h).collect();
        for (c1, r1, ok1) in runs.iter().skip(1) {
            rep.evaluations += 1;
            if let Err(e) = ok1 {
                rep.violation("honest_run_failed", format!("{}: {e}", c1.show()), json!({"kind":"mpc_case","case":c1}));
                continue;
            }
            let sent1: Vec<_> = r1.msgs.iter().filter(|m| m.from == *h).collect();
            if sent0.len() != sent1.len() {
                rep.violation("noninterference:count", format!("{} vs {}: number of messages differs", c0.show(), c1.show()), json!({"kind":"mpc_case","case":c1}));
                continue;
            }
            for (a, b) in sent0.iter().zip(sent1.iter()) {
                ni_checked += 1;
                if a.bytes == b.bytes {
                    continue;
                }
                if !ALLOWED_AFTER.contains(&a.label.as_str()) {
                    rep.violation(
                        format!("noninterference:{}", a.label),
                        format!("message {:?} #{} from honest party {h} to {} depends on its input ({} vs {})", a.label, a.ord, a.to, crate::util::bits(&c0.inputs[*h]), crate::util::bits(&c1.inputs[*h])),
                        json!({"kind":"mpc_case","case":c1}),
                    );
                    break;
                }
                if a.label == "masked inputs" {
                    // must differ exactly in the wires whose input differs, by exactly that difference
                    let (Ok(Val::Vec(x)), Ok(Val::Vec(y))) = (decode_msg(&a.label, &a.bytes), decode_msg(&b.label, &b.bytes)) else {
                        rep.machinery("masked inputs does not decode");
                        break;
                    };
                    let mut k = 0;
                    for (reg, g) in &c0.circ.insts {
                        if let crate::circuits::G::In(p, i) = g {
                            let (vx, vy) = (&x[*reg as usize], &y[*reg as usize]);
                            if *p as usize == *h {
                                let d_in = c0.inputs[*h][*i as usize] ^ c1.inputs[*h][*i as usize];
                                let (Val::Opt(Some(bx)), Val::Opt(Some(by))) = (vx, vy) else { continue };
                                let (Val::Bool(bx), Val::Bool(by)) = (&**bx, &**by) else { continue };
                                if (bx ^ by) != d_in {
                                    rep.violation("noninterference:masked_diff", format!("masked input of wire r{reg} changed by {} but the input changed by {d_in}", bx ^ by), json!({"kind":"mpc_case","case":c1}));
                                }
                                k += 1;
                            } else if vx != vy {
                                rep.violation("noninterference:masked_other_wire", format!("masked inputs entry r{reg} (not an own wire) differs"), json!({"kind":"mpc_case","case":c1}));
                            }
                        }
                    }
                    let _ = k;
                }
            }
        }
    }
    rep.set("noninterference", json!({"configurations": ni_cfgs.len(), "runs": ni_runs.len(), "message_pairs_compared": ni_checked}));

    // ---- 2-4. tape set: own contribution, privacy of the share, freshness, frequency ------------
    // frequency configuration: n=2 and n=3, honest party h, input all-0 and all-1
    let mut fcfgs: Vec<(MpcCase, usize)> = vec![];
    for (layout, h, p_eval) in [(vec![2usize, 1], 0usize, 1usize), (vec![1, 2], 1, 1), (vec![1, 1, 1], 2, 0)] {
        if layout.len() == 3 && !tier.is_thorough() {
            // n=3 is 4x as expensive; quick keeps it for the non-interference part only
            continue;
        }
        for val in [false, true] {
            let c = small_circ(&layout);
            let mut inputs: Vec<Vec<bool>> = layout.iter().map(|k| vec![true; *k]).collect();
            inputs[h] = vec![val; layout[h]];
            fcfgs.push((MpcCase { circ: c, inputs, p_eval, p_out: (0..layout.len()).collect(), tmp_mask: 0 }, h));
        }
    }
    let mut fruns: Vec<(usize, u64)> = vec![];
    for ci in 0..fcfgs.len() {
        for t in 0..ntapes {
            fruns.push((ci, t));
        }
    }
    let fres = par_map(&fruns, |w, _, (ci, t)| {
        let (case, h) = &fcfgs[*ci];
        let r = run_probed(case, (base + *t) * 64 + *ci as u64, w);
        let ok = check_honest(case, &r);
        let os = own_shares(case, &r, *h);
        let deltas: Vec<Option<u128>> = (0..case.n()).map(|p| delta_of(&r, p)).collect();
        (ok, os, deltas)
    });
    let mut all_deltas: HashSet<u128> = HashSet::new();
    let mut delta_count = 0u64;
    for (ci, (case, h)) in fcfgs.iter().enumerate() {
        let wires = case.circ.inputs[*h];
        let mut ones = vec![0u64; wires];
        let mut total = 0u64;
        for ((c, _t), (ok, os, deltas)) in fruns.iter().zip(fres.iter()) {
            if *c != ci {
                continue;
            }
            rep.evaluations += 1;
            if let Err(e) = ok {
                rep.violation("honest_run_failed", format!("{}: {e}", case.show()), json!({"kind":"mpc_case","case":case}));
                continue;
            }
            match os {
                Ok(v) => {
                    total += 1;
                    for (k, (_, _, own)) in v.iter().enumerate() {
                        if *own {
                            ones[k] += 1;
                        }
                    }
                }
                Err(e) => {
                    rep.violation("own_share_unobservable", e.clone(), json!({"kind":"mpc_case","case":case}));
                }
            }
            for d in deltas {
                match d {
                    Some(d) => {
                        delta_count += 1;
                        if !all_deltas.insert(*d) {
                            rep.violation("delta_repeated", format!("global key {d:#x} used twice (across parties or executions)"), json!({"kind":"mpc_case","case":case}));
                        }
                    }
                    None => rep.machinery("delta probe missing (is polytune built with __verif?)"),
                }
            }
        }
        if total == 0 {
            continue;
        }
        let sigma = (total as f64 / 4.0).sqrt();
        for (k, o) in ones.iter().enumerate() {
            let dev = (*o as f64 - total as f64 / 2.0).abs() / sigma;
            if *o == 0 || *o == total {
                rep.violation("own_share_constant", format!("{}: own mask share of wire {k} of party {h} is constant {} over {total} tapes", case.show(), *o == total), json!({"kind":"mpc_case","case":case}));
            } else if dev > 5.5 {
                rep.violation("own_share_biased", format!("{}: own mask share of wire {k} is 1 in {o} of {total} tapes ({dev:.1} sigma)", case.show()), json!({"kind":"mpc_case","case":case}));
            }
        }
        rep.sample(json!({"config": case.show(), "honest_party": h, "tapes": total, "own_share_ones_per_wire": ones}));
    }
    rep.set("frequency", json!({"tapes_per_input_value": ntapes, "configurations": fcfgs.len(), "deltas_compared": delta_count}));

    // canary configuration: 128 input wires, tape-derived canary
    let canary_tapes: u64 = if tier.is_thorough() { 64 } else { 24 };
    let mut ccfgs: Vec<(usize, usize, usize, u64)> = vec![];
    for (n, h, p_eval) in [(2usize, 0usize, 1usize), (2, 1, 1), (3, 1, 0)] {
        if n == 3 && !tier.is_thorough() {
            continue;
        }
        for t in 0..canary_tapes {
            ccfgs.push((n, h, p_eval, t));
        }
    }
    let cres = par_map(&ccfgs, |w, _, (n, h, p_eval, t)| {
        let c = canary_circ(*n, *h);
        let canary: Vec<bool> = (0..128u64).map(|k| mix(base ^ 0xca9a, *t * 131 + k) & 1 == 1).collect();
        let mut inputs: Vec<Vec<bool>> = (0..*n).map(|_| vec![true]).collect();
        inputs[*h] = canary.clone();
        let case = MpcCase { circ: c, inputs, p_eval: *p_eval, p_out: (0..*n).collect(), tmp_mask: 0 };
        let r = run_probed(&case, (base + *t) * 64 + 32 + (*n * 4 + *h) as u64, w);
        let ok = check_honest(&case, &r);
        let os = own_shares(&case, &r, *h);
        let mut found = vec![];
        if let Ok(os) = &os {
            let own: Vec<bool> = os.iter().map(|x| x.2).collect();
            for m in r.msgs.iter().filter(|m| m.from == *h) {
                if let Some(how) = find_pattern(&m.bytes, &canary) {
                    found.push(format!("the 128 canary input bits occur in {:?} to {} {how}", m.label, m.to));
                }
                if let Some(how) = find_pattern(&m.bytes, &own) {
                    found.push(format!("the party's 128 own mask shares occur in {:?} to {} {how}", m.label, m.to));
                }
            }
        }
        (case, ok, os, found)
    });
    let mut share_vectors: HashSet<Vec<bool>> = HashSet::new();
    for (case, ok, os, found) in &cres {
        rep.evaluations += 1;
        if let Err(e) = ok {
            rep.violation("honest_run_failed", format!("canary: {e}"), json!({"kind":"mpc_case","case":case}));
            continue;
        }
        for f in found {
            let class = if f.contains("canary") { "input_bits_in_traffic" } else { "own_shares_in_traffic" };
            rep.violation(class, f.clone(), json!({"kind":"mpc_case","case":case}));
        }
        if let Ok(os) = os {
            let v: Vec<bool> = os.iter().map(|x| x.2).collect();
            if !share_vectors.insert(v) {
                rep.violation("mask_vector_repeated", "two executions (or parties) used the same 128-bit own mask vector".to_string(), json!({"kind":"mpc_case","case":case}));
            }
        }
    }
    // every one of the 128 own mask shares must take both values over the tapes of its configuration
    // (with >= 24 tapes a good wire is constant with probability 2^-23; three or more constant wires
    // cannot happen by chance)
    let mut by_cfg: std::collections::HashMap<(usize, usize), Vec<Vec<bool>>> = Default::default();
    for ((n, h, _, _), (_, ok, os, _)) in ccfgs.iter().zip(cres.iter()) {
        if ok.is_ok()
            && let Ok(os) = os
        {
            by_cfg.entry((*n, *h)).or_default().push(os.iter().map(|x| x.2).collect());
        }
    }
    for ((n, h), vs) in &by_cfg {
        if vs.len() < 20 {
            continue;
        }
        let constant: Vec<usize> = (0..128).filter(|w| vs.iter().all(|v| v[*w] == vs[0][*w])).collect();
        if constant.len() >= 3 {
            rep.violation("own_share_constant_positions", format!("n={n} honest party {h}: own mask shares of {} of 128 input wires are constant over {} tapes (wires {:?}...)", constant.len(), vs.len(), &constant[..constant.len().min(8)]), json!({"kind":"c06_canary","n":n,"party":h}));
        }
    }
    // 5. the OT-extension matrices a party sends as receiver hide its own choice bits (= its mask
    // shares) behind one pseudo-random pad per base OT.  If two 128-bit blocks of the pads coincide,
    // the XOR of the two blocks is the same in all 128 vectors and equals the XOR of the party's
    // own shares at those positions.  Checked on wide batches (more than 1024 OTs per session), for
    // every pair of 128-bit blocks of every matrix sent.
    let wide_cases: Vec<MpcCase> = {
        let mut v = vec![];
        let c = crate::circuits::and_chain(2, 1100);
        v.push(MpcCase { inputs: c.inputs_from_mask(0b01), circ: c, p_eval: 0, p_out: vec![0, 1], tmp_mask: 0 });
        if tier.is_thorough() {
            let c = crate::circuits::and_chain(3, 1500);
            v.push(MpcCase { inputs: c.inputs_from_mask(0b110), circ: c, p_eval: 1, p_out: vec![0, 1, 2], tmp_mask: 0 });
        }
        v
    };
    let wide_res = par_map(&wide_cases, |w, i, case| {
        let r = run_default(&ExecCfg::new(case.n(), mix(seed, 6600 + i as u64)), mpc_body(case, 860 + w));
        (check_honest(case, &r), ot_matrix_monitor(&r))
    });
    let mut block_pairs = 0u64;
    for (case, (ok, mon)) in wide_cases.iter().zip(wide_res.iter()) {
        if let Err(e) = ok {
            rep.violation("honest_run_failed", format!("wide batch: {e}"), json!({"kind":"mpc_case","case":case}));
        }
        match mon {
            Ok(k) => block_pairs += k,
            Err(e) => rep.violation("own_share_differences_in_ot_matrix", format!("{}: {e}", case.show()), json!({"kind":"mpc_case","case":case})),
        }
    }
    rep.set("ot_matrix_block_pairs_compared", json!(block_pairs));
    rep.set("canary", json!({"runs": ccfgs.len(), "distinct_mask_vectors": share_vectors.len()}));
    rep.evaluations = (ni_runs.len() + fruns.len() + ccfgs.len()) as u64;
    rep.distinct_nontrivial = (ni_runs.len() - ni_cfgs.len() + fruns.len() + ccfgs.len()) as u64;
    rep.exhaustive = Some(true);
    rep.rule = "1. per configuration and tape, every input assignment of the honest party: all messages it sends are diffed (only 'masked inputs' [exact difference], its broadcast echo, 'labels' and 'lambda' may differ); 2. own mask share per wire reconstructed from the transcript over the enumerated tape set (integers VERIF_SEED*N..+N) for input all-0 and all-1: both values occur, count within 5.5 sigma; 3. probed global keys and 128-bit own-mask vectors pairwise distinct over tapes and parties; 4. 128-wire canary: neither input bits nor own shares occur in the party's traffic as bool bytes or packed at any bit offset; 5. on batches wider than 1024 OTs, no two 128-bit blocks of an OT-extension matrix have the same XOR in all 128 vectors (that XOR would be the receiver's own choice bits = mask shares); 6. n>=3: what a party sends to two peers in the same OT batch (Chou-Orlandi messages, every vector of the OT-extension matrix) never coincides. distinct = (configuration, input, tape); the first run of every non-interference configuration is the reference and is not counted as non-trivial".into();
    rep.assumptions = vec![
        "the frequency clause is a count over an enumerated tape set, not a decision by exhaustive exploration (DESIGN.md 4.C06)".into(),
        "entropy reaches the engine only through the harness's getrandom backend".into(),
    ];
    rep.finish()
}
