//! C17 - server core: leader concurrency limit is respected and permits are never leaked.

use serde_json::json;

use super::c13::spec;
use crate::srv::{Ev, Kind, MsgPolicy, Snapshot, Walk, comp_id, make_policies, run_walk};
use crate::util::{Report, Tier, par_map};
use polytune_server_core::Policy;

struct Batch {
    name: String,
    n: usize,
    concurrency: usize,
    policies: Vec<Vec<Policy>>,
    leaders: Vec<usize>,
    outputs: Vec<Vec<bool>>,
}

/// `with_consts`: 0 = no constants, 1 = every second policy takes constants from both parties,
/// 2 = every policy takes a constant from its follower only (so the leader waits for a peer's
/// constants after it has sent nothing itself), 3 = from its leader only
fn batch(seed: u64, k: usize, concurrency: usize, with_consts: u8, outputs_all: bool, salt: u64) -> Batch {
    let n = 2;
    let mut policies = vec![];
    let mut leaders = vec![];
    let mut outputs = vec![];
    for j in 0..k {
        let leader = j % n;
        let outs: Vec<bool> = if outputs_all { vec![true; n] } else { (0..n).map(|p| p != leader).collect() };
        let consts: Vec<usize> = match with_consts {
            1 if j % 2 == 0 => vec![0, 1],
            2 => vec![1 - leader],
            3 => vec![leader],
            _ => vec![],
        };
        let (sp, _) = spec(n, leader, &consts, outs.clone());
        policies.push(make_policies(&sp, comp_id(seed, salt * 100 + j as u64)));
        leaders.push(leader);
        outputs.push(outs);
    }
    Batch { name: format!("k{k}/c{concurrency}/consts{}/outs_all{outputs_all}", ["false", "true", "_follower_only", "_leader_only"][with_consts as usize]), n, concurrency, policies, leaders, outputs }
}

/// Largest number of leader-side computations of one party whose MPC traffic was in flight at the
/// same time.  The traffic interval of a computation lies inside the interval during which its
/// permit is held (acquired before `run` is sent, released when the MPC task ends), so with a
/// correct implementation at most `concurrency` such intervals overlap.
fn max_overlap(snap: &Snapshot, n: usize, leaders: &[usize]) -> Vec<usize> {
    let mut res = vec![0; n];
    for p in 0..n {
        let mut points: Vec<(u64, i32)> = vec![];
        for (pol, party, first, last) in snap.msg_spans.iter() {
            if *party as usize != p || leaders[*pol as usize] != p {
                continue;
            }
            points.push((*first, 1));
            points.push((*last + 1, -1));
        }
        points.sort();
        let mut cur = 0;
        for (_, d) in points {
            cur += d;
            res[p] = res[p].max(cur.max(0) as usize);
        }
    }
    res
}

pub fn main(tier: Tier, seed: u64) -> i32 {
    let mut rep = Report::new("C17", tier, seed, "model_checking");
    if let Err(e) = crate::srvx::selftest(seed) {
        rep.machinery(e);
        return rep.finish();
    }
    let mut batches = vec![];
    let mut salt = 0;
    for k in if tier.is_thorough() { vec![1usize, 2, 3, 4, 6, 8] } else { vec![1, 2, 3, 4, 6] } {
        for c in [1usize, 2, 3] {
            for (wc, oa) in [(0u8, true), (1, false), (2, true), (3, false)] {
                if k == 1 && c > 1 {
                    continue;
                }
                // the one-sided constant layouts only for small batches (they add the starve jobs)
                if wc >= 2 && (k > 3 || k == 1 || c > 2) {
                    continue;
                }
                salt += 1;
                batches.push(batch(seed, k, c, wc, oa, salt));
            }
        }
    }
    // ---- job list -------------------------------------------------------------------------------
    #[derive(Clone, Debug)]
    enum Job {
        Default,
        Reverse,
        /// explicit MPC-message events: all coordination events first, so that computations overlap
        /// wherever the permits allow it
        Interleaved,
        Fail(crate::srv::RpcKey),
        /// two coordination RPCs fail in the same run
        Fail2(crate::srv::RpcKey, crate::srv::RpcKey),
        Cancel { pol: u8, party: u8, at: usize },
        /// like Interleaved, but one coordination event is postponed until no other coordination
        /// event (`false`) or no other event at all (`true`) is enabled
        Starve(Ev, bool),
        /// two postponed coordination events (thorough tier, small batches)
        Starve2(Ev, Ev),
    }
    let mut jobs: Vec<(usize, Job)> = vec![];
    let mut bases = vec![];
    for (bi, b) in batches.iter().enumerate() {
        let base = match run_walk(b.n, b.concurrency, b.policies.clone(), Walk { max_steps: 50_000, ..Default::default() }, MsgPolicy::Eager, crate::exec::mix(seed, 1700 + bi as u64)) {
            Ok(x) => x,
            Err(e) => {
                rep.machinery(format!("base walk failed for {}: {e}", b.name));
                bases.push(None);
                continue;
            }
        };
        jobs.push((bi, Job::Default));
        jobs.push((bi, Job::Reverse));
        jobs.push((bi, Job::Interleaved));
        let k = b.policies.len();
        if k <= 3 || tier.is_thorough() {
            // every single coordination RPC failed once
            for e in base.history.iter() {
                if let Ev::Deliver(key) = e
                    && key.kind != Kind::Msg
                {
                    jobs.push((bi, Job::Fail(*key)));
                }
            }
            // thorough: every pair of failed coordination RPCs (small batches)
            if tier.is_thorough() && k <= 2 {
                let keys: Vec<crate::srv::RpcKey> = base.history.iter().filter_map(|e| if let Ev::Deliver(key) = e { if key.kind != Kind::Msg { Some(*key) } else { None } } else { None }).collect();
                for a in 0..keys.len() {
                    for b2 in a + 1..keys.len() {
                        jobs.push((bi, Job::Fail2(keys[a], keys[b2])));
                    }
                }
            }
            // cancels on one policy of the batch
            let len = base.history.len();
            for at in (0..=len).step_by(if tier.is_thorough() { 2 } else { 4 }) {
                for party in 0..b.n as u8 {
                    jobs.push((bi, Job::Cancel { pol: (k - 1) as u8, party, at }));
                }
            }
        }
        if k <= 3 || tier.is_thorough() {
            match run_walk(b.n, b.concurrency, b.policies.clone(), Walk { max_steps: 50_000, ..Default::default() }, MsgPolicy::Explicit, crate::exec::mix(seed, 1700 + bi as u64)) {
                Ok(il) => {
                    let mut seen: Vec<Ev> = vec![];
                    for e in il.history.iter().filter(|e| !matches!(e, Ev::Msg { .. })) {
                        if !seen.contains(e) {
                            seen.push(e.clone());
                            jobs.push((bi, Job::Starve(e.clone(), false)));
                            if k <= 2 || tier.is_thorough() {
                                jobs.push((bi, Job::Starve(e.clone(), true)));
                            }
                        }
                    }
                }
                Err(e) => rep.machinery(format!("interleaved base walk failed for {}: {e}", b.name)),
            }
            if tier.is_thorough() && k <= 2 {
                let evs: Vec<Ev> = jobs.iter().filter_map(|(j, job)| if *j == bi { if let Job::Starve(e, false) = job { Some(e.clone()) } else { None } } else { None }).collect();
                for a in 0..evs.len() {
                    for c in a + 1..evs.len() {
                        jobs.push((bi, Job::Starve2(evs[a].clone(), evs[c].clone())));
                    }
                }
            }
        }
        bases.push(Some(base));
    }
    let results = par_map(&jobs, |_, _, (bi, job)| {
        let b = &batches[*bi];
        let Some(base) = &bases[*bi] else { return Err("no base".to_string()) };
        let mut walk = Walk { prefer: base.history.clone(), max_steps: 50_000, ..Default::default() };
        let mut policy = MsgPolicy::Eager;
        match job {
            Job::Default => {}
            Job::Reverse => {
                walk.prefer = base.history.iter().rev().cloned().collect();
            }
            Job::Interleaved => {
                walk.prefer = vec![];
                policy = MsgPolicy::Explicit;
            }
            Job::Fail(key) => {
                let at = base.history.iter().position(|e| *e == Ev::Deliver(*key)).unwrap_or(0);
                walk.injections.push((at, Ev::Fail(*key)));
            }
            Job::Fail2(k1, k2) => {
                for key in [k1, k2] {
                    let at = base.history.iter().position(|e| *e == Ev::Deliver(*key)).unwrap_or(0);
                    walk.injections.push((at, Ev::Fail(*key)));
                }
            }
            Job::Cancel { pol, party, at } => walk.injections.push((*at, Ev::Cancel { pol: *pol, party: *party })),
            Job::Starve2(e1, e2) => {
                walk.prefer = vec![];
                policy = MsgPolicy::Explicit;
                walk.starve = vec![e1.clone(), e2.clone()];
            }
            Job::Starve(ev, past) => {
                walk.prefer = vec![];
                policy = MsgPolicy::Explicit;
                walk.starve = vec![ev.clone()];
                walk.starve_past_msgs = *past;
            }
        }
        run_walk(b.n, b.concurrency, b.policies.clone(), walk, policy, crate::exec::mix(seed, 1700 + *bi as u64))
    });
    let mut states = 0u64;
    let mut transitions = 0u64;
    let mut max_seen = 0usize;
    for ((bi, job), r) in jobs.iter().zip(results.iter()) {
        let b = &batches[*bi];
        let r = match r {
            Ok(r) => r,
            Err(e) => {
                rep.machinery(format!("walk failed: {e}"));
                continue;
            }
        };
        states += 1;
        transitions += r.history.len() as u64;
        rep.evaluations += 1;
        let snap = &r.snapshot;
        let desc = format!("{} {job:?}", b.name);
        let replay = json!({"kind":"srv17","batch":b.name,"job":format!("{job:?}"),"history":r.history});
        if let Some((pol, p, _)) = snap.actors_finished.iter().find(|a| a.2) {
            rep.violation("actor_panicked", format!("{desc}: state machine of party {p} (policy {pol}) panicked"), replay.clone());
        }
        // the bound
        let ov = max_overlap(snap, b.n, &b.leaders);
        for (p, o) in ov.iter().enumerate() {
            max_seen = max_seen.max(*o);
            if *o > b.concurrency {
                rep.violation("concurrency_bound_exceeded", format!("{desc}: party {p} led {o} computations at once with concurrency {}", b.concurrency), replay.clone());
            }
        }
        match job {
            Job::Default | Job::Reverse | Job::Interleaved | Job::Starve(..) | Job::Starve2(..) => {
                // everything ran to completion: full budget, all stopped, every destination served once
                for (p, permits) in snap.permits.iter().enumerate() {
                    if *permits != b.concurrency {
                        rep.violation("permit_leaked", format!("{desc}: party {p} has {permits} of {} permits at the end", b.concurrency), replay.clone());
                    }
                }
                if !snap.actors_alive.is_empty() {
                    rep.violation("not_all_stopped", format!("{desc}: still alive {:?}", snap.actors_alive), replay.clone());
                }
                for (pol, outs) in b.outputs.iter().enumerate() {
                    for (p, want) in outs.iter().enumerate() {
                        let got: Vec<_> = snap.outputs.iter().filter(|o| o.pol as usize == pol && o.party as usize == p).collect();
                        let ok = if *want { got.len() == 1 && got[0].result.is_ok() } else { got.is_empty() };
                        if !ok {
                            rep.violation("batch_result_missing_or_wrong", format!("{desc}: policy {pol} party {p}: {:?}", got.iter().map(|o| o.result.clone()).collect::<Vec<_>>()), replay.clone());
                        }
                    }
                }
            }
            Job::Fail(key) => {
                // the affected policy ends at the caller, with an error notification if it has a
                // destination, and the caller's permit comes back
                let caller = key.from as usize;
                let pol = key.pol as usize;
                let alive = snap.actors.iter().any(|a| a.0 as usize == pol && a.1 as usize == caller && a.3.is_none());
                if alive {
                    rep.violation(format!("failed_{:?}_rpc:caller_lingers", key.kind).to_lowercase(), format!("{desc}: the policy is still alive at the caller (party {caller}) after its {:?} call failed", key.kind), replay.clone());
                }
                if b.outputs[pol][caller] {
                    let got: Vec<_> = snap.outputs.iter().filter(|o| o.pol as usize == pol && o.party as usize == caller).collect();
                    // a failed validate is reported through the schedule call, not the destination
                    if key.kind != Kind::Validate && !(got.len() == 1 && got[0].result.is_err()) {
                        rep.violation(format!("failed_{:?}_rpc:no_error_notification", key.kind).to_lowercase(), format!("{desc}: destination of party {caller} received {:?}", got.iter().map(|o| o.result.clone()).collect::<Vec<_>>()), replay.clone());
                    }
                }
                // the caller's budget: only policies of other computations still legitimately running may hold permits
                let others_alive_as_leader = snap.actors.iter().filter(|a| a.1 as usize == caller && a.3.is_none() && b.leaders[a.0 as usize] == caller && a.0 as usize != pol).count();
                if snap.permits[caller] + others_alive_as_leader < b.concurrency {
                    rep.violation(format!("failed_{:?}_rpc:permit_leaked", key.kind).to_lowercase(), format!("{desc}: party {caller} has {} of {} permits at the end ({} other leader-side computations alive)", snap.permits[caller], b.concurrency, others_alive_as_leader), replay.clone());
                }
            }
            Job::Fail2(k1, k2) => {
                // both callers: no lingering policy, budget back (the second RPC may never have been issued)
                for key in [k1, k2] {
                    let caller = key.from as usize;
                    let pol = key.pol as usize;
                    let issued = snap.rpc_kinds_seen.iter().any(|(k, _)| k == key);
                    if !issued {
                        continue;
                    }
                    if snap.actors.iter().any(|a| a.0 as usize == pol && a.1 as usize == caller && a.3.is_none()) {
                        rep.violation("two_failed_rpcs:caller_lingers", format!("{desc}: policy {pol} is still alive at party {caller}"), replay.clone());
                    }
                    let others = snap.actors.iter().filter(|a| a.1 as usize == caller && a.3.is_none() && b.leaders[a.0 as usize] == caller && a.0 as usize != pol).count();
                    if snap.permits[caller] + others < b.concurrency {
                        rep.violation("two_failed_rpcs:permit_leaked", format!("{desc}: party {caller} has {} of {} permits", snap.permits[caller], b.concurrency), replay.clone());
                    }
                }
            }
            Job::Cancel { party, .. } => {
                // after all other policies ended, the cancelled party's budget must be complete again
                let p = *party as usize;
                let alive_leading = snap.actors.iter().filter(|a| a.1 as usize == p && a.3.is_none() && b.leaders[a.0 as usize] == p).count();
                if snap.permits[p] + alive_leading < b.concurrency {
                    rep.violation("cancel:permit_leaked", format!("{desc}: party {p} has {} of {} permits at the end", snap.permits[p], b.concurrency), replay.clone());
                }
            }
        }
        if rep.samples.len() < 4 && matches!(job, Job::Fail(_)) && rep.evaluations % 13 == 0 {
            rep.sample(json!({"batch": b.name, "job": format!("{job:?}"), "permits_at_end": snap.permits, "alive": snap.actors_alive, "outputs": snap.outputs.iter().map(|o| format!("pol {} party {} <- {:?}", o.pol, o.party, o.result)).collect::<Vec<_>>()}));
        }
    }
    rep.distinct_nontrivial = states;
    rep.set("states", json!(states));
    rep.set("transitions", json!(transitions));
    rep.set("traces_validated_against_impl", json!(states));
    rep.set("batches", json!(batches.iter().map(|b| b.name.clone()).collect::<Vec<_>>()));
    rep.set("max_simultaneous_leader_side_computations_seen", json!(max_seen));
    rep.exhaustive = Some(true);
    rep.rule = "batches of k two-party policies with alternating leaders sharing each party's semaphore (quick k<=4, c in {1,2}; thorough k<=8, c<=3), without constants, with constants from both parties, from the follower only, from the leader only; with/without destinations: the default-order history, the reverse-preference history, the all-coordination-first history with explicit MPC messages and, around it, every single coordination event postponed until no other coordination event (or no event at all) is enabled (thorough, batches of up to 2: every pair of coordination events postponed); every single validate/run/consts RPC failed once (transport error instead of delivery), and cancels of one policy at spaced positions. Oracle: overlap of the MPC-traffic intervals of the computations a party leads <= concurrency; full budget and all stopped at the end of complete runs; after a failed RPC the policy ends at the caller with an error notification (if it has a destination) and its permit is back".into();
    rep.assumptions = vec!["histories are walks around the default order, not all interleavings of the batch (the per-process canonical form does not merge across policies that share a semaphore)".into()];
    rep.finish()
}
