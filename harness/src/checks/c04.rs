//! C04 - preprocessing: cheating detected, commit-before-reveal, challenge-after-data.

use std::sync::Arc;

use aes::Aes128;
use aes::cipher::{BlockCipherEncrypt, KeyInit};
use polytune::verif::Hook;
use rand::seq::SliceRandom;
use rand::{RngCore, SeedableRng};
use rand_chacha::ChaCha20Rng;
use serde_json::json;

use crate::campaign::{Config, gen_cases, is_online, judge_detection, make_config, run_faults, tape_seed};
use crate::exec::{ExecCfg, RunResult, run_default};
use crate::hooks::{ProbeVal, TapSpec};
use crate::monitors::commit_before_reveal;
use crate::mpcrun::{MpcCase, check_honest, mpc_body};
use crate::util::{Budget, Report, Tier, par_map};

fn pre_configs(tier: Tier, seed: u64) -> Result<Vec<Config>, String> {
    let mut v = vec![];
    let mut roles: Vec<(usize, usize, usize)> = vec![(2, 1, 0), (2, 0, 0), (3, 1, 0)];
    if tier.is_thorough() {
        roles.extend([(3, 0, 0), (3, 2, 0)]);
    }
    for (n, corrupted, p_eval) in roles {
        let c = super::c08::circuit(n);
        let case = MpcCase { inputs: c.inputs_from_mask(0b110), circ: c.clone(), p_eval, p_out: (0..n).collect(), tmp_mask: 0 };
        v.push(make_config(case, corrupted, tape_seed(seed, (n * 100 + corrupted * 10 + p_eval) as u64), false)?);
    }
    Ok(v)
}

fn flip_first_bool() -> crate::hooks::TapFn {
    Arc::new(|h: &mut Hook<'_>| match h {
        Hook::Bools(b) if !b.is_empty() => b[0] = !b[0],
        Hook::BoolVecs(v) => {
            if let Some(x) = v.iter_mut().find(|x| !x.is_empty()) {
                x[0] = !x[0]
            }
        }
        Hook::Bytes(b) if !b.is_empty() => b[0] ^= 1,
        _ => {}
    })
}

/// Challenge predictor: everything below is computed from bytes that were on the wire before the
/// data under check was first sent.
fn xor32(a: &[u8], b: &[u8]) -> [u8; 32] {
    std::array::from_fn(|i| a[i] ^ b[i])
}

fn rng_ver_payload(r: &RunResult<Vec<bool>>, from: usize, to: usize, ord: usize) -> Option<(Vec<u8>, u64)> {
    let m = r.msgs.iter().find(|m| m.from == from && m.to == to && m.label == "RNG ver" && m.ord == ord)?;
    // Vec<u8>: 8-byte length prefix + 32 bytes
    Some((m.bytes[8..40].to_vec(), m.t_sent))
}

struct Prediction {
    what: String,
    predicted: Vec<u128>,
    /// logical time at which the last byte needed for the prediction was on the wire
    known_at: u64,
}

fn predictions(r: &RunResult<Vec<bool>>, n: usize, observer_of: usize) -> Vec<Prediction> {
    let mut out = vec![];
    // pairwise generator (round 0 of "RNG ver"): seed = own opening xor peer opening
    for k in (0..n).filter(|k| *k != observer_of) {
        if let (Some((a, ta)), Some((b, tb))) = (rng_ver_payload(r, observer_of, k, 0), rng_ver_payload(r, k, observer_of, 0)) {
            let mut g = ChaCha20Rng::from_seed(xor32(&a, &b));
            let mut chi = [0u8; 16];
            g.fill_bytes(&mut chi);
            out.push(Prediction { what: format!("first KOS check coefficient of pair ({observer_of},{k})"), predicted: vec![u128::from_le_bytes(chi)], known_at: ta.max(tb) });
        }
    }
    // multi-party generator (round 1): seed = xor of all openings
    let mut seed = [0u8; 32];
    let mut t = 0;
    let mut ok = true;
    let me_to = (0..n).find(|k| *k != observer_of).unwrap();
    match rng_ver_payload(r, observer_of, me_to, 1) {
        Some((a, ta)) => {
            seed = xor32(&seed, &a);
            t = t.max(ta);
        }
        None => ok = false,
    }
    for k in (0..n).filter(|k| *k != observer_of) {
        match rng_ver_payload(r, k, observer_of, 1) {
            Some((a, ta)) => {
                seed = xor32(&seed, &a);
                t = t.max(ta);
            }
            None => ok = false,
        }
    }
    if ok {
        let mut g = ChaCha20Rng::from_seed(seed);
        let mut s = [0u8; 16];
        g.fill_bytes(&mut s);
        // first word of the aBit test generator: AES-CTR keystream block 0 under that seed
        let aes = Aes128::new(&aes::cipher::Array(s));
        let mut b = aes::cipher::Array(0u128.to_le_bytes());
        aes.encrypt_block(&mut b);
        out.push(Prediction { what: "first word of the aBit test generator (first batch)".into(), predicted: vec![u128::from_le_bytes(b.0)], known_at: t });
        // second fashare consumes another 16 bytes, then the bucket permutation is drawn
        g.fill_bytes(&mut s);
        out.push(Prediction { what: "__perm_state".into(), predicted: vec![], known_at: t });
        PERM_RNG.with(|p| *p.borrow_mut() = Some(g));
    }
    out
}

thread_local! {
    static PERM_RNG: std::cell::RefCell<Option<ChaCha20Rng>> = const { std::cell::RefCell::new(None) };
}

fn probe_u128(r: &RunResult<Vec<bool>>, party: usize, name: &str, occ: usize) -> Option<(u128, u64)> {
    r.probes.iter().find(|p| p.party == party && p.name == name && p.occ == occ).and_then(|p| match &p.val {
        ProbeVal::U128s(v) => v.first().map(|x| (*x, p.t)),
        _ => None,
    })
}

/// First time any message with `label` between the pair (a,b) was sent.
fn first_sent(r: &RunResult<Vec<bool>>, a: usize, b: usize, label: &str) -> Option<u64> {
    r.msgs.iter().filter(|m| ((m.from == a && m.to == b) || (m.from == b && m.to == a)) && m.label == label).map(|m| m.t_sent).min()
}

struct Finding {
    class: String,
    detail: String,
}

fn challenge_monitor(case: &MpcCase, r: &RunResult<Vec<bool>>) -> (u32, Vec<Finding>) {
    let n = case.n();
    let mut checked = 0;
    let mut f = vec![];
    for obs in 0..n {
        for p in predictions(r, n, obs) {
            if p.what == "__perm_state" {
                // bucket permutation
                if let Some(pr) = r.probes.iter().find(|x| x.party == obs && x.name == "bucket_perm" && x.occ == 0)
                    && let ProbeVal::Usizes(actual) = &pr.val
                    && let Some(mut g) = PERM_RNG.with(|g| g.borrow_mut().take())
                {
                    let mut idx: Vec<usize> = (0..actual.len()).collect();
                    idx.shuffle(&mut g);
                    checked += 1;
                    // data under check: the leaky AND triples, first sent as 'haand'
                    let data_t = (0..n).filter(|k| *k != obs).filter_map(|k| first_sent(r, obs, k, "haand")).min().unwrap_or(u64::MAX);
                    if idx == *actual && p.known_at < data_t {
                        f.push(Finding { class: "challenge_before_data:bucket_permutation".into(), detail: format!("party {obs}: the bucket permutation of the first aAND batch ({} entries) is computable from the coin-toss openings on the wire at t={}, before the first leaky-AND message at t={data_t}", actual.len(), p.known_at) });
                    }
                }
                continue;
            }
            if p.what.starts_with("first KOS") {
                let k: usize = p.what.split(',').nth(1).unwrap().trim_end_matches(')').parse().unwrap();
                for name in ["kos_chi_send", "kos_chi_recv"] {
                    if let Some((actual, _)) = probe_u128(r, obs, name, if n == 2 { 0 } else { occ_for_peer(r, obs, name, k) }) {
                        checked += 1;
                        let data_t = first_sent(r, obs, k, "ALSZ_OT_setup").unwrap_or(u64::MAX);
                        if actual == p.predicted[0] && p.known_at < data_t {
                            f.push(Finding { class: "challenge_before_data:kos_coefficients".into(), detail: format!("party {obs}: {} = {actual:#x} is computable from the coin-toss openings on the wire at t={}, before the OT matrix is first sent at t={data_t}", p.what, p.known_at) });
                        }
                    }
                }
            } else if let Some((actual, _)) = probe_u128(r, obs, "abit_check_first_word", 0) {
                checked += 1;
                let data_t = (0..n).filter(|k| *k != obs).filter_map(|k| first_sent(r, obs, k, "ALSZ_OT_setup")).min().unwrap_or(u64::MAX);
                if actual == p.predicted[0] && p.known_at < data_t {
                    f.push(Finding { class: "challenge_before_data:abit_test".into(), detail: format!("party {obs}: the aBit test combinations (generator first word {actual:#x}) are computable from the coin-toss openings at t={}, before the aBit OT data at t={data_t}", p.known_at) });
                }
            }
        }
        // reuse between checks: first coefficient of two different KOS sessions of the same party
        let chis: Vec<u128> = r.probes.iter().filter(|x| x.party == obs && (x.name == "kos_chi_send" || x.name == "kos_chi_recv")).filter_map(|x| match &x.val { ProbeVal::U128s(v) => v.first().copied(), _ => None }).collect();
        let mut seen = std::collections::HashMap::new();
        for (i, c) in chis.iter().enumerate() {
            checked += 1;
            if let Some(j) = seen.insert(*c, i) {
                f.push(Finding { class: "challenge_reused:kos_coefficients".into(), detail: format!("party {obs}: KOS sessions #{j} and #{i} use the same first check coefficient {c:#x}") });
                break;
            }
        }
        let abits: Vec<u128> = r.probes.iter().filter(|x| x.party == obs && x.name == "abit_check_first_word").filter_map(|x| match &x.val { ProbeVal::U128s(v) => v.first().copied(), _ => None }).collect();
        let set: std::collections::HashSet<_> = abits.iter().collect();
        if set.len() != abits.len() {
            f.push(Finding { class: "challenge_reused:abit_test".into(), detail: format!("party {obs}: two aBit batches use the same test generator") });
        }
    }
    (checked, f)
}

/// For n >= 3 a party runs KOS sessions with several peers; the occurrence index of the first
/// session with peer k is found by matching probe times against that pair's first OT message.
fn occ_for_peer(r: &RunResult<Vec<bool>>, party: usize, name: &str, k: usize) -> usize {
    let t0 = first_sent(r, party, k, "ALSZ_OT_setup").unwrap_or(0);
    // the first probe of this name at or after the pair's first OT matrix... probes fire after the
    // matrix was received/sent; choose the earliest probe whose time is >= t0 and which no lower
    // peer claims.  With the default schedule sessions start in peer order.
    let mut cands: Vec<(u64, usize)> = r.probes.iter().filter(|x| x.party == party && x.name == name).map(|x| (x.t, x.occ)).collect();
    cands.sort();
    cands.iter().find(|(t, _)| *t >= t0).map(|(_, o)| *o).unwrap_or(0)
}

/// Schema-free form of "no honest party reveals a committed value before it holds every peer's
/// commitment", for the LaAND check value H (probe `flaand_hi`): the first message of party v to peer
/// a that contains H_v (byte search) must be issued after v has received some message that a sent
/// after a had computed its own H_a - otherwise a rushing peer can still choose H_a after reading H_v.
/// Independent of the message layout (labels and schema are not consulted).
fn reveal_after_binding(r: &RunResult<Vec<bool>>, n: usize) -> Result<u64, String> {
    let mut checked = 0u64;
    let probe = |p: usize, occ: usize| r.probes.iter().find(|x| x.party == p && x.name == "flaand_hi" && x.occ == occ).and_then(|x| match &x.val { ProbeVal::U128s(v) if !v.is_empty() => Some((v[0], x.t)), _ => None });
    for v in 0..n {
        for occ in 0..8 {
            let Some((hv, tv)) = probe(v, occ) else { break };
            let pats = [hv.to_be_bytes(), hv.to_le_bytes()];
            for a in (0..n).filter(|a| *a != v) {
                let Some((_, ta)) = probe(a, occ) else { continue };
                // first send of v to a, issued after v knew H_v, whose bytes contain H_v
                let reveal = r.ops.iter().filter(|o| o.party == v && o.peer == a && o.dir == crate::exec::Dir::Send && o.issue_t >= tv).filter(|o| o.msg.is_some_and(|i| { let b = r.msgs[i].orig.as_ref().unwrap_or(&r.msgs[i].bytes); pats.iter().any(|p| b.windows(16).any(|w| w == p)) })).map(|o| o.issue_t).min();
                let Some(reveal) = reveal else { continue };
                checked += 1;
                // a message of a, sent after a knew H_a, that v had received before revealing
                let bound = r.ops.iter().any(|o| o.party == v && o.peer == a && o.dir == crate::exec::Dir::Recv && o.complete_t.is_some_and(|t| t < reveal) && o.msg.is_some_and(|i| r.msgs[i].t_sent >= ta));
                if !bound {
                    return Err(format!("party {v} sent its LaAND check value H (batch {occ}) to party {a} at t={reveal} before it had received anything that party {a} sent after computing its own H (t={ta}): a rushing peer can choose its H after reading the honest one"));
                }
            }
        }
    }
    Ok(checked)
}

pub fn main(tier: Tier, seed: u64) -> i32 {
    let mut rep = Report::new("C04", tier, seed, "fault_enumeration");
    if let Err(e) = super::selftest::determinism(seed) {
        rep.machinery(e);
        return rep.finish();
    }
    // ---------------- (0) layout-independent reveal-after-commit monitor ----------------
    // runs first: it needs neither labels nor the schema table, so it still decides when a change of
    // the wire layout makes the schema-bound parts below stop with a machinery error
    let mut reveal_checked = 0u64;
    for n in [2usize, 3] {
        let case = super::c12::cases_for(n, 0);
        for policy in 0..3u8 {
            let mut ec = ExecCfg::new(n, tape_seed(seed, 40 + n as u64));
            ec.record_probes = true;
            let r = crate::exec::run(&ec, mpc_body(&case, 845), &mut |en, _| match policy { 0 => 0, 1 => en.len() - 1, _ => en.iter().position(|a| matches!(a, crate::exec::Action::Run(_))).unwrap_or(0) }, false);
            if let Err(e) = check_honest(&case, &r) {
                rep.machinery(format!("honest run failed: {e}"));
                continue;
            }
            match reveal_after_binding(&r, n) {
                Ok(k) => reveal_checked += k,
                Err(e) => rep.violation("reveal_before_commit:laand_check_value", format!("n={n} schedule policy {policy}: {e}"), json!({"kind":"mpc_case","case":case})),
            }
        }
    }
    rep.set("layout_independent_reveal_obligations", json!(reveal_checked));
    if reveal_checked == 0 && rep.violations.len() == 0 {
        rep.machinery("the layout-independent reveal monitor found no obligation (probe flaand_hi missing?)");
    }
    if rep.violations.len() > 0 {
        // a verdict that does not depend on the schema-bound parts: report it now
        return rep.finish();
    }
    // ---------------- (a) detection ----------------
    let cfgs = match pre_configs(tier, seed) {
        Ok(c) => c,
        Err(e) => {
            rep.machinery(e);
            return rep.finish();
        }
    };
    let cap = if tier.is_thorough() { usize::MAX } else { 3 };
    let cases = match gen_cases(&cfgs, cap, tier.is_thorough(), &|l| !is_online(l), true) {
        // count-changing mutations only for nested vectors (a value announced without its MAC);
        // outer lengths are C08's subject
        Ok(c) => c.into_iter().filter(|c| !c.muts[0].malformed || c.muts[0].path.as_ref().is_some_and(|p| p.len() >= 2)).collect::<Vec<_>>(),
        Err(e) => {
            rep.machinery(e);
            return rep.finish();
        }
    };
    let mut cases = cases;
    // a choice bit that differs towards one peer (passes the KOS column check; the aBit test must catch it)
    match crate::campaign::gen_choice_bit_cases(&cfgs) {
        Ok(c) => cases.extend(c),
        Err(e) => rep.machinery(e),
    }
    // two lies inside one message (would cancel in a check that accumulates deviations)
    match crate::campaign::gen_pair_cases(&cfgs, &["dvalue", "faand", "fabitn"], if tier.is_thorough() { 24 } else { 9 }) {
        Ok(p) => cases.extend(p),
        Err(e) => rep.machinery(e),
    }
    // commit-then-open chains: the commitment is recomputed for the altered opening, so the commitment
    // check passes and the *content* check behind it has to catch the lie
    {
        use crate::schema::{Val, decode_msg, encode_vec};
        for (ci, cfg) in cfgs.iter().enumerate() {
            let sent: Vec<(usize, &crate::exec::MsgRec)> = cfg.honest.msgs.iter().enumerate().filter(|(_, m)| m.from == cfg.corrupted).collect();
            for (oi, om) in sent.iter().filter(|(_, m)| m.label == "fashare di_bi" || m.label == "flaand hash") {
                let commit_label = if om.label == "fashare di_bi" { "fashare comm" } else { "flaand comm" };
                let Some((cmi, cm)) = sent.iter().find(|(_, m)| m.label == commit_label && m.to == om.to && m.ord == om.ord) else { continue };
                let (Ok(Val::Vec(comm)), Ok(Val::Vec(open))) = (decode_msg(commit_label, &cm.bytes), decode_msg(&om.label, &om.bytes)) else { continue };
                let idxs: Vec<usize> = if open.len() <= 3 { (0..open.len()).collect() } else { vec![0, open.len() / 2, open.len() - 1] };
                for r in idxs {
                    let Val::U128(v) = open[r] else { continue };
                    let v2 = v ^ 1;
                    let h = Val::Raw(blake3::hash(&v2.to_be_bytes()).as_bytes().to_vec());
                    let mut comm2 = comm.clone();
                    match &mut comm2[r] {
                        Val::Tup(t) => {
                            t[0] = h.clone();
                            t[1] = h.clone();
                        }
                        x => *x = h.clone(),
                    }
                    let mut open2 = open.clone();
                    open2[r] = Val::U128(v2);
                    let mk = |detail: String, bytes: Vec<u8>| crate::adv::MsgMut { class: "struct:chain".into(), detail, bytes: Arc::new(bytes), malformed: false, path: Some(vec![r]), node: Some(crate::schema::NodeMut::XorLow), dynamic: None };
                    cases.push(crate::campaign::FCase {
                        cfg: ci,
                        msgs: vec![*cmi, *oi],
                        muts: vec![mk(format!("commitment #{r} recomputed for the altered opening"), encode_vec(&Val::Vec(comm2))), mk(format!("opening #{r} altered (low bit)"), encode_vec(&Val::Vec(open2)))],
                        label: format!("{commit_label}+{}", om.label),
                        field: format!("{commit_label}+{}[chain]", om.label),
                        rule: crate::campaign::Rule::Always,
                        to_all: false,
                        desc: format!("{}: {:?}/{:?} #{} {}->{}: opening #{r} altered and its commitment recomputed", cfg.name, commit_label, om.label, om.ord, om.from, om.to),
                    });
                }
            }
        }
    }
    let j = judge_detection(&mut rep, &cfgs, &cases, "C04");
    // tap-based persistent variants
    let taps: Vec<(&str, Vec<&str>)> = vec![
        ("coin-toss seed changed after the commitment (multi-party toss)", vec!["rng_seed_multi"]),
        ("coin-toss seed changed after the commitment (pairwise toss)", vec!["rng_seed_pair"]),
        ("own check bit in the aShare decommitment changed before committing", vec!["fashare_dm"]),
        ("two own check bits in the aShare decommitment changed before committing", vec!["fashare_dm", "fashare_dm#17"]),
        ("own d-value share changed before use and send", vec!["dvalue_bits"]),
        ("own Beaver d/e share changed before use and send", vec!["beaver_de"]),
    ];
    let mut tap_cases = vec![];
    for ci in 0..cfgs.len() {
        for (ti, _) in taps.iter().enumerate() {
            tap_cases.push((ci, ti));
        }
    }
    let tap_res = par_map(&tap_cases, |w, _, (ci, ti)| {
        let cfg = &cfgs[*ci];
        let n = cfg.case.n();
        let mut specs = vec![];
        for name in &taps[*ti].1 {
            if *name == "rng_seed_pair" {
                let k = (0..n).find(|k| *k != cfg.corrupted).unwrap();
                specs.push(TapSpec { party: cfg.corrupted, name: format!("rng_seed_pair:{k}"), occ: Some(0), f: flip_first_bool() });
            } else if let Some((base, occ)) = name.split_once('#') {
                specs.push(TapSpec { party: cfg.corrupted, name: base.to_string(), occ: occ.parse().ok(), f: flip_first_bool() });
            } else {
                specs.push(TapSpec { party: cfg.corrupted, name: name.to_string(), occ: Some(0), f: flip_first_bool() });
            }
        }
        run_faults(cfg, vec![], specs, false, w).0
    });
    let mut tap_detected = 0u64;
    for ((ci, ti), r) in tap_cases.iter().zip(tap_res.iter()) {
        let cfg = &cfgs[*ci];
        let n = cfg.case.n();
        let honest: Vec<usize> = (0..n).filter(|p| *p != cfg.corrupted).collect();
        let all_err = honest.iter().all(|p| r.outcomes[*p].0 == "Err");
        // the honest parties must detect the lie by a check of their own, not merely see the
        // liar's own (honest) code abort and close the channel
        let closed_only = all_err && honest.iter().all(|p| r.outcomes[*p].1.contains("Closed"));
        if all_err && !closed_only {
            tap_detected += 1;
        } else if closed_only {
            let outs: Vec<String> = r.outcomes.iter().enumerate().map(|(p, o)| format!("p{p}:{}({})", o.0, o.1.chars().take(60).collect::<String>())).collect();
            rep.violation(format!("peer_abort_only:tap:{}", taps[*ti].1.join("+")), format!("{}: {} -> {}", cfg.name, taps[*ti].0, outs.join(" ")), json!({"kind":"tap","case":cfg.case,"corrupted":cfg.corrupted,"seed":cfg.seed,"tap":taps[*ti].1}));
        } else {
            let outs: Vec<String> = r.outcomes.iter().enumerate().map(|(p, o)| format!("p{p}:{}({})", o.0, o.1.chars().take(40).collect::<String>())).collect();
            rep.violation(format!("undetected:tap:{}", taps[*ti].1[0]), format!("{}: {} -> {}", cfg.name, taps[*ti].0, outs.join(" ")), json!({"kind":"tap","case":cfg.case,"corrupted":cfg.corrupted,"seed":cfg.seed,"tap":taps[*ti].1}));
        }
    }
    // ---- rushing peer that echoes the victim's own round messages (n = 2) ---------------------------
    // Several checks open values from all parties after a commitment round and test a relation that
    // is symmetric in the parties (the coin toss, the aShare check, the LaAND check H_0 xor H_1 = 0).
    // A rushing peer can answer the victim's commitment with a copy of it and the victim's opening
    // with a copy of that: the victim is handed its own messages of that round.  Alone, and combined
    // with every kind of wrong value that the campaign above shows to be detected, the victim must
    // still return Err.  (The cheater's own honest code is handed its own messages as well, so that
    // it does not abort where a real cheater would simply go on.)
    let reflect_sets: Vec<(&str, Vec<&str>)> = vec![
        ("coin_toss", vec!["RNG comm", "RNG ver"]),
        ("ashare_check", vec!["fashare comm", "fashare ver", "fashare di_bi"]),
        ("laand_check", vec!["flaand comm", "flaand hash"]),
        ("bucket_and_beaver_openings", vec!["dvalue", "faand"]),
    ];
    // base deviations: none, or one detected single-message fault (quick: one per label and
    // configuration; thorough: every one)
    let mut rcases: Vec<(usize, Option<usize>, usize)> = vec![];
    for (ci, cfg) in cfgs.iter().enumerate() {
        if cfg.case.n() != 2 {
            continue;
        }
        for si in 0..reflect_sets.len() {
            rcases.push((ci, None, si));
        }
    }
    {
        let mut seen = std::collections::HashSet::new();
        for (k, c) in cases.iter().enumerate() {
            let cfg = &cfgs[c.cfg];
            if cfg.case.n() == 2 && c.rule == crate::campaign::Rule::Always && !c.muts[0].malformed && c.msgs.len() == 1 && (tier.is_thorough() || seen.insert((c.cfg, c.label.clone(), c.muts[0].path.as_ref().and_then(|p| p.get(1).copied())))) {
                for si in 0..reflect_sets.len() {
                    rcases.push((c.cfg, Some(k), si));
                }
            }
        }
    }
    let rres = par_map(&rcases, |w, _, (ci, k, si)| {
        let cfg = &cfgs[*ci];
        let victim = 1 - cfg.corrupted;
        let mut faults = k.map(|k| crate::campaign::faults_of(cfg, &cases[k])).unwrap_or_default();
        let nbase = faults.len();
        for label in &reflect_sets[*si].1 {
            for ord in 0..4 {
                faults.push(crate::exec::Fault { party: victim, dir: crate::exec::Dir::Recv, peer: cfg.corrupted, label: label.to_string(), ord, mutation: crate::exec::Mutation::Reflect });
                faults.push(crate::exec::Fault { party: cfg.corrupted, dir: crate::exec::Dir::Recv, peer: victim, label: label.to_string(), ord, mutation: crate::exec::Mutation::Reflect });
            }
        }
        let (fr, r) = run_faults(cfg, faults, vec![], false, w);
        let base_hit = r.faults_hit[..nbase].iter().all(|h| *h);
        let reflected = r.faults_hit[nbase..].iter().filter(|h| **h).count();
        (fr, base_hit, reflected, victim)
    });
    let mut refl_detected = 0u64;
    let mut refl_not_applicable = 0u64;
    let mut refl_kinds: std::collections::BTreeMap<String, u64> = Default::default();
    for ((ci, k, si), (r, base_hit, reflected, victim)) in rcases.iter().zip(rres.iter()) {
        let cfg = &cfgs[*ci];
        if !*base_hit || *reflected == 0 {
            // the run ended before the round in question
            refl_not_applicable += 1;
            continue;
        }
        let base = k.map(|k| cases[k].desc.clone()).unwrap_or_else(|| format!("{}: no other deviation", cfg.name));
        let outs: Vec<String> = r.outcomes.iter().enumerate().map(|(p, o)| format!("p{p}:{}({})", o.0, o.1.chars().take(50).collect::<String>())).collect();
        if r.outcomes[*victim].0 == "Err" {
            refl_detected += 1;
            *refl_kinds.entry(format!("{}: {}", reflect_sets[*si].0, r.outcomes[*victim].1.chars().take(48).collect::<String>())).or_insert(0u64) += 1;
        } else {
            let expected = crate::util::bits(&cfg.case.circ.eval(&cfg.case.inputs));
            let label = k.map(|k| cases[k].label.clone()).unwrap_or_else(|| "none".into());
            rep.violation(
                format!("undetected:{}_reflected:{label}", reflect_sets[*si].0),
                format!("{base}; the peer echoes the victim's own {:?} messages back to it -> {} (clear-text value of the circuit: {expected})", reflect_sets[*si].1, outs.join(" ")),
                json!({"kind":"fault","case":cfg.case,"corrupted":cfg.corrupted,"seed":cfg.seed,"note":format!("plus Recv-side Reflect of {:?} at both parties", reflect_sets[*si].1),"faults": k.map(|k| crate::campaign::replay_json(cfg, &cases[k])["faults"].clone())}),
            );
        }
    }
    rep.set("reflection", json!({"runs": rcases.len(), "detected": refl_detected, "round_not_reached": refl_not_applicable, "victim_errors": refl_kinds}));

    // ---- replay of an earlier batch's message ----------------------------------------------------------
    // Every label occurs once per batch; the corrupted party sends, in place of its message #j, the
    // message with the same label that it sent to the same peer in batch #i < j (checks that reuse
    // coefficients or commitments across batches would accept it).
    let mut pcases: Vec<(usize, usize, usize)> = vec![];
    for (ci, cfg) in cfgs.iter().enumerate() {
        for (mj, m) in cfg.honest.msgs.iter().enumerate() {
            if m.from != cfg.corrupted || is_online(&m.label) || m.ord == 0 || !crate::campaign::direct_detection_expected(&m.label) || m.label.starts_with("broadcast ") {
                continue;
            }
            if let Some(mi) = cfg.honest.msgs.iter().position(|e| e.from == m.from && e.to == m.to && e.label == m.label && e.ord + 1 == m.ord)
                && cfg.honest.msgs[mi].bytes != m.bytes
            {
                pcases.push((ci, mi, mj));
            }
        }
    }
    let pres = par_map(&pcases, |w, _, (ci, mi, mj)| {
        let cfg = &cfgs[*ci];
        let f = crate::adv::send_fault(&cfg.honest.msgs[*mj], cfg.honest.msgs[*mi].bytes.clone());
        run_faults(cfg, vec![f], vec![], false, w).0
    });
    let mut replay_detected = 0u64;
    for ((ci, _, mj), r) in pcases.iter().zip(pres.iter()) {
        let cfg = &cfgs[*ci];
        let m = &cfg.honest.msgs[*mj];
        let outs: Vec<String> = r.outcomes.iter().enumerate().map(|(p, o)| format!("p{p}:{}({})", o.0, o.1.chars().take(50).collect::<String>())).collect();
        let what = format!("{}: {:?} #{} {}->{} replaced by the message of the previous batch", cfg.name, m.label, m.ord, m.from, m.to);
        let replay = json!({"kind":"fault","case":cfg.case,"corrupted":cfg.corrupted,"seed":cfg.seed,"faults":[{"to": m.to, "label": m.label, "ord": m.ord, "mutation": "replay of the previous batch's message"}]});
        if !r.faults_hit {
            continue;
        }
        if r.outcomes[m.to].0 != "Err" {
            rep.violation(format!("undetected:replayed:{}", m.label), format!("{what} -> {}", outs.join(" ")), replay);
        } else if r.outcomes[m.to].1.contains("Closed") {
            rep.violation(format!("peer_abort_only:replayed:{}", m.label), format!("{what} -> {}", outs.join(" ")), replay);
        } else {
            replay_detected += 1;
        }
    }
    rep.set("replayed_batch_messages", json!({"runs": pcases.len(), "detected": replay_detected}));

    // ---- a choice bit used towards one peer only (inconsistent aBit input) --------------------------
    // The cheater runs the OT extension with peer k on x' = x with one bit flipped and everything else
    // on x.  The KOS column check passes (x' is used consistently inside that session); the aBit test
    // of peer k must reject it - whatever the index - before k sends anything of the aShare phase.
    // Indices relative to the batch (len = l + 120 test positions): both ends, both sides of the 64-bit
    // words the test coefficients are unpacked from, the middle, the last index that is 63 mod 64 below
    // l, l-1, and the last test position.
    let idx_sel: Vec<(&str, fn(usize) -> Option<usize>)> = vec![
        ("0", |_| Some(0)),
        ("1", |_| Some(1)),
        ("62", |n| (n > 62 + 120).then_some(62)),
        ("63", |n| (n > 63 + 120).then_some(63)),
        ("64", |n| (n > 64 + 120).then_some(64)),
        ("mid", |n| Some((n - 120) / 2)),
        ("last63mod64", |n| (n >= 64 + 120).then(|| ((n - 120 - 64) / 64) * 64 + 63)),
        ("l-1", |n| Some(n - 121)),
        ("last_test", |n| Some(n - 1)),
    ];
    let mut xcases = vec![];
    for ci in 0..cfgs.len() {
        let n = cfgs[ci].case.n();
        for k in (0..n).filter(|k| *k != cfgs[ci].corrupted) {
            for occ in 0..2usize {
                for si in 0..idx_sel.len() {
                    xcases.push((ci, k, occ, si, false));
                    // n >= 3: the cheater behaves towards peer k exactly as if its bit were different
                    // (OT session and the test bits it announces to k); only the echo of the verified
                    // broadcast can reveal that the peers were told different test bits
                    if n >= 3 && si % 2 == 1 {
                        xcases.push((ci, k, occ, si, true));
                    }
                }
            }
        }
    }
    let xres = par_map(&xcases, |w, _, (ci, k, occ, si, full)| {
        let cfg = &cfgs[*ci];
        let sel = idx_sel[*si].1;
        let f: crate::hooks::TapFn = Arc::new(move |h: &mut Hook<'_>| {
            if let Hook::Bools(b) = h
                && b.len() > 120
                && let Some(i) = sel(b.len())
                && i < b.len()
            {
                b[i] = !b[i];
            }
        });
        let name = if *full { format!("abit_x_full:{k}") } else { format!("abit_x:{k}") };
        let (fr, r) = run_faults(cfg, vec![], vec![TapSpec { party: cfg.corrupted, name: name.clone(), occ: Some(*occ), f }], true, w);
        // did peer k go on to a later phase after the cheater started this aBit batch?
        let t = r.probes.iter().find(|p| p.party == cfg.corrupted && p.name == name && p.occ == *occ).map(|p| p.t);
        let later = t.and_then(|t| r.ops.iter().find(|o| o.party == *k && o.dir == crate::exec::Dir::Send && o.issue_t > t && crate::campaign::phase_of(&o.label).is_some_and(|ph| ph >= 2)).map(|o| o.label.clone()));
        (fr, t.is_some(), later)
    });
    let mut x_detected = 0u64;
    let mut x_trivial = 0u64;
    for ((ci, k, occ, si, full), (r, fired, later)) in xcases.iter().zip(xres.iter()) {
        let cfg = &cfgs[*ci];
        let what = format!("{}: party {} uses choice bit #{} of aBit batch {occ} flipped towards party {k} only{}", cfg.name, cfg.corrupted, idx_sel[*si].0, if *full { " (OT session and announced test bits)" } else { "" });
        let replay = json!({"kind":"tap","case":cfg.case,"corrupted":cfg.corrupted,"seed":cfg.seed,"tap":[format!("abit_x{}:{k}#{occ}", if *full { "_full" } else { "" })],"index":idx_sel[*si].0});
        if !*fired || r.identical {
            // no such batch, or the index does not exist in it
            x_trivial += 1;
            continue;
        }
        let outs: Vec<String> = r.outcomes.iter().enumerate().map(|(p, o)| format!("p{p}:{}({})", o.0, o.1.chars().take(50).collect::<String>())).collect();
        if r.outcomes[*k].0 != "Err" {
            rep.violation(format!("undetected:tap:abit_x{}:{}", if *full { "_full" } else { "" }, idx_sel[*si].0), format!("{what} -> {}", outs.join(" ")), replay);
        } else if let Some(l) = later {
            rep.violation(format!("proceeded_on_unverified:tap:abit_x{}:{}", if *full { "_full" } else { "" }, idx_sel[*si].0), format!("{what}: party {k} passed the aBit test and went on to send {l:?} -> {}", outs.join(" ")), replay);
        } else {
            x_detected += 1;
        }
    }
    rep.set("detection", json!({"faulted_runs": j.evaluations, "detected": j.detected, "trivial": j.trivial, "tap_runs": tap_cases.len(), "tap_detected": tap_detected, "abit_choice_bit_runs": xcases.len(), "abit_choice_bit_detected_in_phase": x_detected, "abit_choice_bit_no_such_index": x_trivial}));

    // ---------------- (b) commit-before-reveal over explored schedules ----------------
    let budget = Budget::new(if tier.is_thorough() { 600.0 } else { 20.0 });
    let mut sched_total = 0u64;
    let plan: Vec<(usize, Option<usize>, u32)> = if tier.is_thorough() { vec![(2, Some(1), 2), (2, None, 2), (3, Some(1), 1), (3, None, 1)] } else { vec![(2, Some(1), 1), (2, None, 1), (3, Some(1), 0), (3, None, 0)] };
    let mut obligations = std::sync::atomic::AtomicU64::new(0);
    for (n, cap, bound) in plan {
        let case = super::c12::cases_for(n, 0);
        let check = |r: &RunResult<Vec<bool>>| -> Result<(), String> {
            check_honest(&case, r)?;
            let honest: Vec<usize> = (0..n).collect();
            let k = commit_before_reveal(&r.ops, n, &honest)?;
            obligations.fetch_add(k as u64, std::sync::atomic::Ordering::Relaxed);
            Ok(())
        };
        let res = super::c12::explore_config_with(&case, cap, bound, tape_seed(seed, 44), &budget, &check);
        sched_total += res.schedules;
        for (devs, e) in &res.failures {
            let class = if e.contains("issued the send of") || e.contains("without ever receiving") { "reveal_before_commit" } else { "schedule_failure" };
            rep.violation(class, format!("{} schedule={devs:?}: {e}", res.name), json!({"kind":"c12","case":case,"capacity":cap,"deviations":devs}));
        }
    }
    // multi-batch honest run (second and third aShare / LaAND rounds)
    {
        let c = crate::circuits::and_chain(2, 1001);
        let case = MpcCase { inputs: c.inputs_from_mask(3), circ: c, p_eval: 0, p_out: vec![0, 1], tmp_mask: 0 };
        let r = run_default(&ExecCfg::new(2, tape_seed(seed, 45)), mpc_body(&case, 840));
        sched_total += 1;
        match commit_before_reveal(&r.ops, 2, &[0, 1]) {
            Ok(k) => {
                obligations.fetch_add(k as u64, std::sync::atomic::Ordering::Relaxed);
            }
            Err(e) => rep.violation("reveal_before_commit", format!("1001-AND chain: {e}"), json!({"kind":"mpc_case","case":case})),
        }
    }
    rep.set("commit_before_reveal", json!({"schedules": sched_total, "obligations_checked": *obligations.get_mut()}));

    // ---------------- (c) challenge-after-data predictor ----------------
    let mut pred_checked = 0;
    for n in [2usize, 3] {
        for p_eval in [0, n - 1] {
            let case = super::c12::cases_for(n, p_eval);
            let mut ec = ExecCfg::new(n, tape_seed(seed, 46 + n as u64));
            ec.record_probes = true;
            let r = run_default(&ec, mpc_body(&case, 841));
            if let Err(e) = check_honest(&case, &r) {
                rep.machinery(format!("predictor base run failed: {e}"));
                continue;
            }
            let (k, findings) = challenge_monitor(&case, &r);
            pred_checked += k;
            let mut seen = std::collections::HashSet::new();
            for f in findings {
                if seen.insert(f.class.clone()) {
                    rep.violation(f.class, format!("n={n} p_eval={p_eval}: {}", f.detail), json!({"kind":"mpc_case","case":case}));
                }
            }
        }
    }
    rep.set("challenge_predictions_compared", json!(pred_checked));
    rep.evaluations = j.evaluations + tap_cases.len() as u64 + xcases.len() as u64 + rcases.len() as u64 + pcases.len() as u64 + sched_total + 4;
    rep.distinct_nontrivial = j.nontrivial.len() as u64 + tap_detected + x_detected;
    if rep.exhaustive.is_none() {
        rep.exhaustive = Some(true);
    }
    rep.rule = "(a) every preprocessing message of the corrupted party (coin-toss commit/opening, Chou-Orlandi, ALSZ/KOS, aBit test, aShare commit/decommit/opened sums, HaAND, LaAND e/u/commit/hash, d-values, Beaver openings, broadcast echo): every field x position (quick: first/middle/last; thorough: every index) x {xor low/top bit, flip bool; thorough adds set-zero/ones}; paired variants for conditionally read branches; n=3 to one recipient and consistently to all; tap-based persistent liars; n=2: a rushing peer that echoes the victim's own messages of a commit / open round back to it (coin toss, aShare check, LaAND check, d-value and Beaver openings), alone and combined with one detected fault per label; every message replaced by the previous batch's message with the same label; a choice bit used towards one peer only (flipped in every column of the OT matrix as a message fault, and via a tap on the bits handed to that peer's OT session, at 9 index classes x 2 batches; for n=3 also with the test bits announced to that peer adjusted, so that only the broadcast echo can tell) - the peer must abort in the aBit test, before sending anything of the aShare phase. Oracle: honest recipients that consume the value return Err (consumption rules of DESIGN.md 2.2). (b) reveal-after-all-commits monitor on every schedule explored with the C12 explorer and on a 3-batch run. (c) predictor: challenge recomputed from coin-toss openings on the wire before the data under check is sent vs. probes of the challenge actually used (alarm on exact match only) and reuse between checks. distinct = (configuration, label/field, recipients, position); trivial = unread branch".into();
    rep.assumptions = vec![
        "cryptographic negligible-probability events are treated as impossible".into(),
        "predictor alarms only on an exact 128-bit / whole-permutation match".into(),
    ];
    rep.finish()
}
