//! C11 - OT extension delivers exactly the correlated message for every length.

use std::sync::Arc;

use polytune::bench_reexports::{Block, kos_ot_receiver, kos_ot_sender};
use rand::SeedableRng;
use rand_chacha::ChaCha20Rng;
use serde_json::json;

use crate::exec::{Body, ExecCfg, Outcome, VChannel, mix, run_default};
use crate::util::{Report, Tier, par_map};

#[derive(Clone, Debug)]
struct OtCase {
    len: usize,
    /// choice pattern for both receiver sessions
    pattern: u8,
    /// 0 = constant delta (as the engine uses), 1 = index-dependent correlation
    corr: u8,
    /// false: party 0 sends then receives (as fabitn does for i<k); true: swapped
    swapped: bool,
}

fn choices(len: usize, pattern: u8, salt: u64) -> Vec<bool> {
    (0..len)
        .map(|i| match pattern {
            0 => false,
            1 => true,
            2 => i % 2 == 0,
            _ => mix(salt ^ pattern as u64, i as u64) & 1 == 1,
        })
        .collect()
}

fn deltas(len: usize, corr: u8, salt: u64) -> Vec<u128> {
    let base = ((mix(salt, 77) as u128) << 64) | mix(salt, 78) as u128;
    (0..len)
        .map(|i| {
            if corr == 0 {
                base
            } else {
                ((mix(salt, 2 * i as u64) as u128) << 64) | mix(salt, 2 * i as u64 + 1) as u128
            }
        })
        .collect()
}

/// Each party returns (what it got as sender, what it got as receiver).
fn body(case: OtCase, salt: u64) -> Body<(Vec<u128>, Vec<u128>)> {
    Arc::new(move |p: usize, ch: VChannel| {
        let case = case.clone();
        Box::pin(async move {
            let mut shared = ChaCha20Rng::seed_from_u64(salt ^ 0xabcdef);
            let my_deltas: Vec<Block> = deltas(case.len, case.corr, salt ^ (p as u64 + 1))
                .into_iter()
                .map(|d| Block::from(d.to_be_bytes()))
                .collect();
            let my_choices = choices(case.len, case.pattern, salt ^ (p as u64 + 11));
            let other = 1 - p;
            let send_first = (p == 0) != case.swapped;
            if send_first {
                let s = kos_ot_sender(&ch, &my_deltas, other, &mut shared).await.map_err(dbg_err)?;
                let r = kos_ot_receiver(&ch, &my_choices, other, &mut shared).await.map_err(dbg_err)?;
                Ok((s, r))
            } else {
                let r = kos_ot_receiver(&ch, &my_choices, other, &mut shared).await.map_err(dbg_err)?;
                let s = kos_ot_sender(&ch, &my_deltas, other, &mut shared).await.map_err(dbg_err)?;
                Ok((s, r))
            }
        })
    })
}

fn dbg_err<E: std::fmt::Debug>(e: E) -> String {
    format!("{e:?}")
}

fn check(case: &OtCase, salt: u64, outs: &[Outcome<(Vec<u128>, Vec<u128>)>]) -> Result<(), String> {
    let (Outcome::Ok((s0, r0)), Outcome::Ok((s1, r1))) = (&outs[0], &outs[1]) else {
        return Err(format!("sessions did not both succeed: {:?} / {:?}", outs[0].kind(), outs[1].kind())
            + &match (&outs[0], &outs[1]) {
                (Outcome::Err(e), _) | (_, Outcome::Err(e)) => format!(" ({e})"),
                (Outcome::Panic(e), _) | (_, Outcome::Panic(e)) => format!(" (panic: {e})"),
                _ => String::new(),
            });
    };
    for (who, v) in [("sender0", s0), ("recv0", r0), ("sender1", s1), ("recv1", r1)] {
        if v.len() != case.len {
            return Err(format!("{who} returned {} items for length {}", v.len(), case.len));
        }
    }
    // session A: party 0 sender, party 1 receiver; session B the other way round
    for (sp, s, r) in [(0usize, s0, r1), (1usize, s1, r0)] {
        let rp = 1 - sp;
        let d = deltas(case.len, case.corr, salt ^ (sp as u64 + 1));
        let b = choices(case.len, case.pattern, salt ^ (rp as u64 + 11));
        for i in 0..case.len {
            let exp = s[i] ^ if b[i] { d[i] } else { 0 };
            if r[i] != exp {
                return Err(format!(
                    "index {i}: receiver(party {rp}) got {:#x}, expected {:#x} (choice {})",
                    r[i], exp, b[i]
                ));
            }
        }
    }
    Ok(())
}

pub fn main(tier: Tier, seed: u64) -> i32 {
    let mut rep = Report::new("C11", tier, seed, "exploration");
    if let Err(e) = super::selftest::determinism(seed) {
        rep.machinery(e);
        return rep.finish();
    }
    let mut lens: Vec<usize> = vec![];
    if tier.is_thorough() {
        lens.extend(1..=4096);
    } else {
        lens.extend(1..=1030);
        for k in 1..=512usize {
            for d in [-1i64, 0, 1] {
                let l = (8 * k) as i64 + d;
                if l > 1030 && l <= 4097 && (k % 16 == 0 || k <= 64 || k % 16 == 15 || k % 16 == 1) {
                    lens.push(l as usize);
                }
            }
        }
        for k in 1..=32usize {
            for d in [-1i64, 0, 1] {
                lens.push((128 * k) as i64 as usize + d as usize);
            }
        }
        lens.sort();
        lens.dedup();
    }
    let mut cases = vec![];
    for (li, &len) in lens.iter().enumerate() {
        if tier.is_thorough() {
            // every pattern for every length; correlation kind and order alternate over patterns
            for pattern in 0..5u8 {
                for corr in 0..2u8 {
                    cases.push(OtCase { len, pattern, corr, swapped: (pattern + corr) % 2 == 1 });
                }
            }
        } else {
            cases.push(OtCase { len, pattern: (li % 5) as u8, corr: 0, swapped: false });
            cases.push(OtCase { len, pattern: ((li + 2) % 5) as u8, corr: 1, swapped: true });
        }
    }
    let results = par_map(&cases, |_, i, c| {
        let salt = mix(seed, i as u64);
        let cfg = ExecCfg::new(2, salt);
        let r = run_default(&cfg, body(c.clone(), salt));
        let v = if r.deadlock { Err("deadlock".to_string()) } else { check(c, salt, &r.outcomes) };
        (v, salt, r.msgs.len())
    });
    let mut distinct = std::collections::HashSet::new();
    for (c, (v, salt, msgs)) in cases.iter().zip(results.iter()) {
        rep.evaluations += 1;
        if c.len > 1 || c.pattern > 1 {
            distinct.insert((c.len, c.pattern, c.corr, c.swapped));
        }
        if rep.samples.len() < 4 && (c.len == 1 || c.len == 129 || c.len == 4095 || c.len == 63) {
            rep.sample(json!({"len": c.len, "pattern": c.pattern, "corr": c.corr, "swapped": c.swapped, "messages": msgs}));
        }
        if let Err(e) = v {
            let class = format!("ot:{}", e.split(':').next().unwrap_or("").split(' ').take(4).collect::<Vec<_>>().join("_"));
            rep.violation(class, format!("len={} pattern={} corr={} swapped={}: {e}", c.len, c.pattern, c.corr, c.swapped),
                json!({"kind": "ot", "len": c.len, "pattern": c.pattern, "corr": c.corr, "swapped": c.swapped, "salt": salt}));
        }
    }
    rep.distinct_nontrivial = distinct.len() as u64;
    rep.exhaustive = Some(true);
    rep.set("lengths", json!(lens.len()));
    rep.set("max_length", json!(lens.iter().max()));
    rep.rule = "each case = two back-to-back correlated-OT sessions (one per direction) over one channel with one shared generator; lengths enumerated (thorough: every length 1..4096; quick: 1..1030 plus 8k-1/8k/8k+1 and 128k-1/128k/128k+1 up to 4097); patterns all-0/all-1/alternating/2 tape-derived; correlation constant or index-dependent; both session orders. distinct = (length, pattern, correlation kind, order); trivial = length 1 with a constant choice".into();
    rep.assumptions = vec!["entry points are the crate's __bench re-exports of kos_ot_sender/kos_ot_receiver".into()];
    rep.finish()
}
