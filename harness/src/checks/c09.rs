//! C09 - communication pattern and message sizes do not depend on private inputs or coins.

use serde_json::json;

use crate::circuits::feature_circuits;
use crate::exec::{Dir, OpRec, RunResult, mix};
use crate::mpcrun::{MpcCase, check_honest, run_case};
use crate::util::{Report, Tier, par_map};

/// Per-party signature: the ordered list of its operations as issued.
pub fn signature(r: &RunResult<Vec<bool>>, n: usize) -> Vec<Vec<(usize, Dir, String, usize, u32, u32)>> {
    let mut per: Vec<Vec<&OpRec>> = vec![vec![]; n];
    for o in &r.ops {
        if o.issue_t != 0 {
            per[o.party].push(o);
        }
    }
    per.into_iter()
        .map(|mut v| {
            v.sort_by_key(|o| o.issue_t);
            // completion poll index is implied by order of completion times; record rank of
            // completion among the party's ops to capture which ops were outstanding together
            let mut comp: Vec<(u64, usize)> = v.iter().enumerate().map(|(i, o)| (o.complete_t.unwrap_or(u64::MAX), i)).collect();
            comp.sort();
            let mut rank = vec![0u32; v.len()];
            for (r, (_, i)) in comp.iter().enumerate() {
                rank[*i] = r as u32;
            }
            v.iter()
                .enumerate()
                .map(|(i, o)| (o.peer, o.dir, o.label.clone(), o.len, o.issue_poll, rank[i]))
                .collect()
        })
        .collect()
}

fn first_diff(
    a: &[Vec<(usize, Dir, String, usize, u32, u32)>],
    b: &[Vec<(usize, Dir, String, usize, u32, u32)>],
) -> Option<String> {
    for (p, (x, y)) in a.iter().zip(b).enumerate() {
        for i in 0..x.len().max(y.len()) {
            if x.get(i) != y.get(i) {
                return Some(format!("party {p} op #{i}: {:?} vs {:?}", x.get(i), y.get(i)));
            }
        }
    }
    None
}

pub fn main(tier: Tier, seed: u64) -> i32 {
    let mut rep = Report::new("C09", tier, seed, "exploration");
    if let Err(e) = super::selftest::determinism(seed) {
        rep.machinery(e);
        return rep.finish();
    }
    let tapes = if tier.is_thorough() { 64 } else { 12 };
    // public configurations
    struct Pub {
        name: String,
        case: MpcCase,
        /// explicit input assignments instead of the enumeration of the first six input bits
        explicit: Option<Vec<Vec<Vec<bool>>>>,
    }
    let mut pubs = vec![];
    for n in [2usize, 3, 4] {
        let feats = feature_circuits(n);
        let take = match (tier.is_thorough(), n) {
            (true, 4) => 3,
            (true, _) => feats.len(),
            (false, 2) => feats.len(),
            (false, 3) => 3,
            (false, _) => 1,
        };
        for (fi, (name, c)) in feats.iter().enumerate().take(take) {
            let evals: Vec<usize> = if tier.is_thorough() || n == 2 { (0..n).collect() } else { vec![(fi + 1) % n] };
            for p_eval in evals {
                let outs: Vec<Vec<usize>> = if tier.is_thorough() {
                    vec![(0..n).collect(), vec![(p_eval + 1) % n], vec![p_eval]]
                } else if (fi + p_eval) % 2 == 0 {
                    vec![(0..n).collect()]
                } else {
                    vec![vec![(p_eval + 1) % n]]
                };
                for p_out in outs {
                    let masks: Vec<u32> = if tier.is_thorough() { vec![0, 0b101 & ((1 << n) - 1)] } else { vec![(fi as u32 * 5 + 1) & ((1 << n) - 1)] };
                    for tmp_mask in masks {
                        pubs.push(Pub {
                            explicit: None,
                            name: format!("{name}/n{n}/e{p_eval}/o{p_out:?}/t{tmp_mask:b}"),
                            case: MpcCase {
                                circ: c.clone(),
                                inputs: c.inputs_from_mask(0),
                                p_eval,
                                p_out: p_out.clone(),
                                tmp_mask,
                            },
                        });
                    }
                }
            }
        }
    }
    // large messages (> 64 KiB): a wide input layer and a multi-chunk garbled table
    {
        let wide = 33_000usize;
        let mut b = crate::circuits::B::new(&[wide, 1]);
        let x = b.xor(0, (wide - 1) as u32);
        let y = b.xor(x, wide as u32);
        let c = b.out(&[y]);
        let zeros = vec![vec![false; wide], vec![false]];
        let ones = vec![vec![true; wide], vec![true]];
        let alt = vec![(0..wide).map(|i| i % 2 == 0).collect(), vec![true]];
        pubs.push(Pub { name: "wide_inputs/n2/e0".into(), case: MpcCase { circ: c.clone(), inputs: zeros.clone(), p_eval: 0, p_out: vec![0, 1], tmp_mask: 0 }, explicit: Some(vec![zeros.clone(), ones.clone(), alt.clone()]) });
        pubs.push(Pub { name: "wide_inputs/n2/e1".into(), case: MpcCase { circ: c, inputs: zeros.clone(), p_eval: 1, p_out: vec![1], tmp_mask: 0b10 }, explicit: Some(vec![zeros, ones, alt]) });
        // many output wires (per-output encodings): 300 distinct XOR outputs, both parties output
        // parties, either party evaluating
        {
            let k = 300usize;
            let mut b = crate::circuits::B::new(&[k, k]);
            let outs: Vec<u32> = (0..k).map(|i| b.xor(i as u32, (k + i) as u32)).collect();
            let c = b.out(&outs);
            let zeros = vec![vec![false; k], vec![false; k]];
            let ones = vec![vec![true; k], vec![false; k]];
            let alt = vec![(0..k).map(|i| i % 3 == 0).collect(), (0..k).map(|i| i % 2 == 0).collect()];
            for p_eval in [0usize, 1] {
                pubs.push(Pub { name: format!("many_outputs/n2/e{p_eval}"), case: MpcCase { circ: c.clone(), inputs: zeros.clone(), p_eval, p_out: vec![0, 1], tmp_mask: 0 }, explicit: Some(vec![zeros.clone(), ones.clone(), alt.clone()]) });
            }
        }
        let chain = crate::circuits::and_chain(2, 1001);
        let ins: Vec<Vec<Vec<bool>>> = (0..4u64).map(|m| chain.inputs_from_mask(m)).collect();
        pubs.push(Pub { name: "chain1001/n2/e0".into(), case: MpcCase { circ: chain, inputs: ins[0].clone(), p_eval: 0, p_out: vec![0, 1], tmp_mask: 0b01 }, explicit: Some(ins) });
    }
    // executions: (pub index, input mask, tape)
    let mut execs: Vec<(usize, u64, u64)> = vec![];
    for (pi, p) in pubs.iter().enumerate() {
        if let Some(ex) = &p.explicit {
            for m in 0..ex.len() as u64 {
                execs.push((pi, m, 0));
            }
            for tape in 1..tapes.min(8) as u64 {
                execs.push((pi, (ex.len() - 1) as u64, tape));
            }
            continue;
        }
        let t = p.case.circ.total_inputs().min(6);
        for m in 0..(1u64 << t) {
            execs.push((pi, m, 0));
        }
        for tape in 1..tapes as u64 {
            execs.push((pi, (1u64 << t) - 1, tape));
        }
    }
    let results = par_map(&execs, |w, _, (pi, m, tape)| {
        let mut case = pubs[*pi].case.clone();
        case.inputs = match &pubs[*pi].explicit {
            Some(ex) => ex[*m as usize].clone(),
            None => case.circ.inputs_from_mask(*m),
        };
        let r = run_case(&case, mix(seed, *tape * 1000 + *pi as u64), w);
        let ok = check_honest(&case, &r);
        let payload_hash = {
            let mut h = blake3::Hasher::new();
            for mm in &r.msgs {
                h.update(&mm.bytes);
            }
            h.finalize().to_hex().to_string()
        };
        (signature(&r, case.n()), ok, payload_hash, r.ops.len())
    });
    let mut reference: Vec<Option<usize>> = vec![None; pubs.len()];
    let mut distinct = 0u64;
    for (ei, ((pi, m, tape), (sig, ok, ph, nops))) in execs.iter().zip(results.iter()).enumerate() {
        rep.evaluations += 1;
        if let Err(e) = ok {
            rep.violation("honest_run_failed", format!("{}: {e}", pubs[*pi].name), json!({"kind":"mpc_case","case": pubs[*pi].case, "input_mask": m, "tape": tape}));
            continue;
        }
        match reference[*pi] {
            None => {
                reference[*pi] = Some(ei);
                if rep.samples.len() < 3 {
                    rep.sample(json!({"config": pubs[*pi].name, "ops": nops, "first_ops_party0": sig[0].iter().take(6).map(|o| format!("{:?} {} {:?} len={}", o.1, o.0, o.2, o.3)).collect::<Vec<_>>() }));
                }
            }
            Some(ri) => {
                let (rsig, _, rph, _) = &results[ri];
                if rph != ph {
                    distinct += 1; // payloads differ: the comparison is non-trivial
                }
                if let Some(d) = first_diff(rsig, sig) {
                    let what = if *tape == 0 { "input" } else { "coins" };
                    rep.violation(
                        format!("pattern_depends_on_{what}"),
                        format!("{} input_mask={m:#b} tape={tape}: {d}", pubs[*pi].name),
                        json!({"kind":"c09","case": pubs[*pi].case, "input_mask": m, "tape": tape, "ref_input_mask": execs[ri].1, "ref_tape": execs[ri].2}),
                    );
                }
            }
        }
    }
    rep.distinct_nontrivial = distinct;
    rep.exhaustive = Some(true);
    rep.set("public_configurations", json!(pubs.len()));
    rep.set("tapes_per_configuration", json!(tapes));
    rep.rule = "per public configuration (feature circuit, n, p_eval, p_out, tmp mask): every input assignment (up to 2^6) under tape 0 and the all-ones assignment under each further tape; compared = per-party ordered list of (peer, direction, label, byte length, poll index at issue, completion rank). distinct non-trivial = executions whose payload bytes differ from the reference execution of their configuration".into();
    rep.assumptions = vec!["default schedule, so that operation order is comparable".into()];
    rep.finish()
}
