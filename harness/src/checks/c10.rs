//! C10 - preprocessing outputs satisfy the authenticated-share and AND-triple relations.

use std::sync::Arc;

use polytune::verif::{self as pv, PShare};
use serde_json::json;

use crate::exec::{Body, ExecCfg, Outcome, VChannel, mix, run_default};
use crate::schema::{Ty, Val, decode, encode_vec};
use crate::util::{Budget, Report, Tier};

#[derive(Clone, Debug, Default)]
pub struct POut {
    pub delta: u128,
    pub multi: u64,
    pub pair: Vec<Vec<Option<u64>>>,
    pub shares: Vec<PShare>,
    pub ab: Vec<(PShare, PShare)>,
    pub ands: Vec<PShare>,
}

#[derive(Clone, Copy, Debug, PartialEq)]
pub enum Pattern {
    /// left/right taken from the preceding fashare
    Fresh,
    /// left = s[2k] ^ s[2k+1], right = s[2k+1]
    XorCombined,
    /// left forced to constant 0 / right to constant 1 on alternating indices
    Forced,
}

fn delta_for(seed: u64, p: usize) -> u128 {
    ((mix(seed, 900 + p as u64) as u128) << 64) | mix(seed, 950 + p as u64) as u128
}

fn xor_share(a: &PShare, b: &PShare) -> PShare {
    PShare {
        bit: a.bit ^ b.bit,
        macs: a.macs.iter().zip(&b.macs).map(|(x, y)| x ^ y).collect(),
        keys: a.keys.iter().zip(&b.keys).map(|(x, y)| x ^ y).collect(),
    }
}

fn const_share(n: usize, p: usize, value: bool, delta: u128) -> PShare {
    // constant 0: all zero.  constant 1: party 0 holds bit 1 with zero MACs, party j != 0 holds key[0] = delta_j
    let mut s = PShare { bit: false, macs: vec![0; n], keys: vec![0; n] };
    if value {
        if p == 0 {
            s.bit = true;
        } else {
            s.keys[0] = delta;
        }
    }
    s
}

/// fashare(l) [+ beaver_aand over `and_l` pairs built by `pattern`] for every party.
pub fn body(n: usize, l: usize, and_l: usize, pattern: Pattern, seed: u64) -> Body<POut> {
    Arc::new(move |p: usize, ch: VChannel| {
        Box::pin(async move {
            let delta = delta_for(seed, p);
            let mut rngs = pv::setup_rngs(&ch, p, n).await?;
            let (multi, pair) = rngs.peek();
            let shares = pv::fashare(&ch, delta, p, n, l, &mut rngs).await?;
            let mut out = POut { delta, multi, pair, shares, ..Default::default() };
            if and_l > 0 {
                let src = pv::fashare(&ch, delta, p, n, 2 * and_l, &mut rngs).await?;
                let ab: Vec<(PShare, PShare)> = (0..and_l)
                    .map(|k| match pattern {
                        Pattern::Fresh => (src[2 * k].clone(), src[2 * k + 1].clone()),
                        Pattern::XorCombined => (xor_share(&src[2 * k], &src[2 * k + 1]), src[2 * k + 1].clone()),
                        Pattern::Forced => match k % 4 {
                            0 => (const_share(n, p, false, delta), src[2 * k + 1].clone()),
                            1 => (src[2 * k].clone(), const_share(n, p, true, delta)),
                            2 => (const_share(n, p, true, delta), const_share(n, p, true, delta)),
                            _ => (src[2 * k].clone(), src[2 * k].clone()),
                        },
                    })
                    .collect();
                let b = pv::bucket_size(and_l);
                let abc = pv::fashare(&ch, delta, p, n, 3 * and_l * b, &mut rngs).await?;
                out.ands = pv::beaver_aand(&ch, delta, &ab, p, n, &mut rngs, &abc).await?;
                out.ab = ab;
            }
            Ok(out)
        })
    })
}

/// MAC relation for every index and ordered pair; returns (bits seen false, bits seen true).
pub fn check_shares(outs: &[&POut], which: &dyn Fn(&POut) -> &Vec<PShare>, expect_len: usize, what: &str) -> Result<(u64, u64), String> {
    let n = outs.len();
    let (mut zeros, mut ones) = (0, 0);
    for (i, o) in outs.iter().enumerate() {
        if which(o).len() != expect_len {
            return Err(format!("{what}: party {i} got {} shares, expected {expect_len}", which(o).len()));
        }
    }
    for k in 0..expect_len {
        for i in 0..n {
            let si = &which(outs[i])[k];
            if si.macs.len() != n || si.keys.len() != n {
                return Err(format!("{what}[{k}]: party {i} auth vector has length {}", si.macs.len()));
            }
            if si.bit { ones += 1 } else { zeros += 1 }
            for j in (0..n).filter(|j| *j != i) {
                let sj = &which(outs[j])[k];
                let exp = sj.keys[i] ^ if si.bit { outs[j].delta } else { 0 };
                if si.macs[j] != exp {
                    return Err(format!("{what}[{k}]: MAC held by party {i} for party {j} != key_{j}[{i}] xor bit*delta_{j}"));
                }
            }
        }
    }
    Ok((zeros, ones))
}

fn check(n: usize, l: usize, and_l: usize, outs: &[Outcome<POut>]) -> Result<(bool, bool), String> {
    let mut o = vec![];
    for (p, x) in outs.iter().enumerate() {
        match x {
            Outcome::Ok(v) => o.push(v),
            other => return Err(format!("party {p}: {other:?}")),
        }
    }
    // shared coins
    for p in 1..n {
        if o[p].multi != o[0].multi {
            return Err(format!("multi-party shared stream differs between party 0 and {p}"));
        }
    }
    let mut pair_words = vec![];
    for a in 0..n {
        for b in a + 1..n {
            let (x, y) = (o[a].pair[a][b], o[b].pair[a][b]);
            if x.is_none() || x != y {
                return Err(format!("pairwise stream ({a},{b}) differs between its two ends: {x:?} vs {y:?}"));
            }
            pair_words.push(x.unwrap());
        }
    }
    let mut pw = pair_words.clone();
    pw.sort();
    pw.dedup();
    if pw.len() != pair_words.len() {
        return Err("two different pairs derived the same pairwise stream".into());
    }
    let (z, on) = check_shares(&o, &|x| &x.shares, l, "fashare")?;
    let both_bits = z > 0 && on > 0;
    let mut all_four = and_l == 0;
    if and_l > 0 {
        check_shares(&o, &|x| &x.ands, and_l, "beaver_aand")?;
        let mut combos = [false; 4];
        for k in 0..and_l {
            let a = (0..n).fold(false, |acc, p| acc ^ o[p].ab[k].0.bit);
            let b = (0..n).fold(false, |acc, p| acc ^ o[p].ab[k].1.bit);
            let z = (0..n).fold(false, |acc, p| acc ^ o[p].ands[k].bit);
            combos[(a as usize) * 2 + b as usize] = true;
            if z != (a & b) {
                return Err(format!("AND share {k}: xor of outputs is {z}, but (xor a)&(xor b) = {}", a & b));
            }
        }
        all_four = combos.iter().all(|c| *c);
    }
    Ok((both_bits, all_four))
}

// ---------------- trusted dealer ----------------

fn share_ty() -> Ty {
    Ty::Tup(vec![Ty::Bool, Ty::Vec(Box::new(Ty::Tup(vec![Ty::U128, Ty::U128])))])
}

fn val_to_pshare(v: &Val) -> PShare {
    let Val::Tup(t) = v else { panic!("share") };
    let Val::Bool(bit) = t[0] else { panic!("bit") };
    let Val::Vec(a) = &t[1] else { panic!("auth") };
    let mut s = PShare { bit, macs: vec![], keys: vec![] };
    for e in a {
        let Val::Tup(mk) = e else { panic!() };
        let (Val::U128(m), Val::U128(k)) = (&mk[0], &mk[1]) else { panic!() };
        s.macs.push(*m);
        s.keys.push(*k);
    }
    s
}

fn pshare_to_val(s: &PShare) -> Val {
    Val::Tup(vec![
        Val::Bool(s.bit),
        Val::Vec(s.macs.iter().zip(&s.keys).map(|(m, k)| Val::Tup(vec![Val::U128(*m), Val::U128(*k)])).collect()),
    ])
}

/// Parties 0..n talk to the real `fpre` running as party n.
fn dealer_body(n: usize, l: usize, and_l: usize) -> Body<POut> {
    use polytune::channel::Channel;
    Arc::new(move |p: usize, ch: VChannel| {
        Box::pin(async move {
            if p == n {
                pv::fpre(&ch, n).await?;
                return Ok(POut::default());
            }
            let e = |e| format!("{e:?}");
            ch.send_bytes_to(n, encode_vec(&Val::Vec(vec![])), "delta").await.map_err(e)?;
            let d = ch.recv_bytes_from(n, "delta").await.map_err(e)?;
            let Val::Vec(dv) = decode(&d, &Ty::Vec(Box::new(Ty::U128)))? else { unreachable!() };
            let Val::U128(delta) = dv[0] else { unreachable!() };
            ch.send_bytes_to(n, encode_vec(&Val::Vec(vec![Val::U32(l as u32)])), "random shares").await.map_err(e)?;
            let s = ch.recv_bytes_from(n, "random shares").await.map_err(e)?;
            let Val::Vec(sv) = decode(&s, &Ty::Vec(Box::new(share_ty())))? else { unreachable!() };
            let shares: Vec<PShare> = sv.iter().map(val_to_pshare).collect();
            let mut out = POut { delta, shares: shares.clone(), ..Default::default() };
            if and_l > 0 {
                let ab: Vec<(PShare, PShare)> = (0..and_l).map(|k| (shares[(2 * k) % l].clone(), shares[(2 * k + 1) % l].clone())).collect();
                let req = Val::Vec(ab.iter().map(|(a, b)| Val::Tup(vec![pshare_to_val(a), pshare_to_val(b)])).collect());
                ch.send_bytes_to(n, encode_vec(&req), "AND shares").await.map_err(e)?;
                let r = ch.recv_bytes_from(n, "AND shares").await.map_err(e)?;
                let Val::Vec(rv) = decode(&r, &Ty::Vec(Box::new(share_ty())))? else { unreachable!() };
                out.ands = rv.iter().map(val_to_pshare).collect();
                out.ab = ab;
            }
            Ok(out)
        })
    })
}

fn check_dealer(n: usize, l: usize, and_l: usize, outs: &[Outcome<POut>]) -> Result<(bool, bool), String> {
    if !outs[n].is_ok() {
        return Err(format!("dealer: {:?}", outs[n]));
    }
    let mut o = vec![];
    for (p, x) in outs.iter().enumerate().take(n) {
        match x {
            Outcome::Ok(v) => o.push(v),
            other => return Err(format!("party {p}: {other:?}")),
        }
    }
    let (z, on) = check_shares(&o, &|x| &x.shares, l, "fpre random shares")?;
    let mut all_four = and_l == 0;
    if and_l > 0 {
        check_shares(&o, &|x| &x.ands, and_l, "fpre AND shares")?;
        let mut combos = [false; 4];
        for k in 0..and_l {
            let a = (0..n).fold(false, |acc, p| acc ^ o[p].ab[k].0.bit);
            let b = (0..n).fold(false, |acc, p| acc ^ o[p].ab[k].1.bit);
            let z = (0..n).fold(false, |acc, p| acc ^ o[p].ands[k].bit);
            combos[(a as usize) * 2 + b as usize] = true;
            if z != (a & b) {
                return Err(format!("fpre AND share {k}: xor of outputs is {z}, expected {}", a & b));
            }
        }
        all_four = combos.iter().all(|c| *c);
    }
    Ok((z > 0 && on > 0, all_four))
}

#[derive(Clone, Debug)]
struct Job {
    kind: &'static str,
    n: usize,
    l: usize,
    and_l: usize,
    pattern: Pattern,
    tape: u64,
}

pub fn main(tier: Tier, seed: u64) -> i32 {
    let mut rep = Report::new("C10", tier, seed, "exploration");
    if let Err(e) = super::selftest::determinism(seed) {
        rep.machinery(e);
        return rep.finish();
    }
    let budget = Budget::new(if tier.is_thorough() { 1500.0 } else { 50.0 });
    let mut jobs: Vec<Job> = vec![];
    let tapes: u64 = if tier.is_thorough() { 4 } else { 2 };
    for tape in 0..tapes {
        // fashare lengths
        let lens: Vec<usize> = if tier.is_thorough() {
            let mut v: Vec<usize> = (1..=300).collect();
            v.extend([1000, 1001, 1002, 4999, 5000]);
            v
        } else {
            let mut v: Vec<usize> = (1..=80).collect();
            v.extend([63, 64, 65, 127, 128, 129, 255, 256, 257, 1000, 1001]);
            v
        };
        for n in 2..=5usize {
            for &l in &lens {
                if tape > 0 && (l > 80 && l < 1000) {
                    continue;
                }
                if n >= 4 && l > 300 && !(tier.is_thorough() && tape == 0) {
                    continue;
                }
                if n >= 4 && !tier.is_thorough() && !matches!(l, 1 | 2 | 7 | 8 | 9 | 40 | 129) {
                    continue;
                }
                jobs.push(Job { kind: "fashare", n, l, and_l: 0, pattern: Pattern::Fresh, tape });
            }
        }
        // beaver_aand
        let ands: Vec<usize> = if tier.is_thorough() { vec![1, 2, 3, 5, 64, 200, 1000] } else { vec![1, 2, 3, 64, 200] };
        for n in 2..=4usize {
            for &al in &ands {
                if n == 4 && al > 64 && !tier.is_thorough() {
                    continue;
                }
                for pattern in [Pattern::Fresh, Pattern::XorCombined, Pattern::Forced] {
                    if pattern != Pattern::Fresh && (al < 3 || (n > 2 && !tier.is_thorough() && al != 64)) {
                        continue;
                    }
                    jobs.push(Job { kind: "aand", n, l: 3, and_l: al, pattern, tape });
                }
            }
        }
        // dealer
        for n in 2..=4usize {
            for (l, al) in [(1usize, 1usize), (8, 16), (200, 150)] {
                jobs.push(Job { kind: "fpre", n, l, and_l: al, pattern: Pattern::Fresh, tape });
            }
        }
    }
    // bucket size 4 (3100 <= triples < 280000) is cheap enough for the quick tier
    if !tier.is_thorough() {
        for (n, al) in [(2usize, 3099usize), (2, 3100), (3, 3100)] {
            jobs.push(Job { kind: "aand", n, l: 1, and_l: al, pattern: Pattern::Fresh, tape: 0 });
        }
    }
    if tier.is_thorough() {
        for (n, al) in [(2usize, 3099usize), (2, 3100), (3, 3100), (2, 5000)] {
            jobs.push(Job { kind: "aand", n, l: 1, and_l: al, pattern: Pattern::Fresh, tape: 0 });
        }
        jobs.push(Job { kind: "aand_bucket3", n: 2, l: 1, and_l: 280_000, pattern: Pattern::Fresh, tape: 0 });
    }
    // heavy first
    jobs.sort_by_key(|j| std::cmp::Reverse((j.l + j.and_l * 20) * j.n * j.n));
    let stop = std::sync::atomic::AtomicBool::new(false);
    let results = crate::util::par_map_until(
        &jobs,
        |_, i, j| {
            if budget.exhausted() {
                stop.store(true, std::sync::atomic::Ordering::Relaxed);
            }
            let s = mix(seed, j.tape * 100_000 + i as u64);
            if j.kind == "fpre" {
                let cfg = ExecCfg::new(j.n + 1, s);
                let r = run_default(&cfg, dealer_body(j.n, j.l, j.and_l));
                if r.deadlock {
                    return Err("deadlock".to_string());
                }
                check_dealer(j.n, j.l, j.and_l, &r.outcomes)
            } else {
                let cfg = ExecCfg::new(j.n, s);
                let r = run_default(&cfg, body(j.n, j.l, j.and_l, j.pattern, s));
                if r.deadlock {
                    return Err("deadlock".to_string());
                }
                check(j.n, j.l, j.and_l, &r.outcomes)
            }
        },
        &stop,
    );
    let mut done = 0u64;
    let mut nontrivial = 0u64;
    let mut vac = vec![];
    for (j, r) in jobs.iter().zip(results.iter()) {
        let Some(r) = r else { continue };
        done += 1;
        match r {
            Ok((both, four)) => {
                // vacuity is only expected for tiny batches (l=1 has a single bit)
                if (*both || j.l < 8) && (*four || j.and_l < 16) {
                    nontrivial += 1;
                } else {
                    vac.push(format!("{j:?}"));
                }
            }
            Err(e) => {
                let class = format!("{}:{}", j.kind, e.split(':').next().unwrap_or("").split('[').next().unwrap_or("").trim().replace(' ', "_"));
                rep.violation(class, format!("{j:?}: {e}"), json!({"kind":"c10","job":format!("{j:?}")}));
            }
        }
        if rep.samples.len() < 5 && (j.and_l == 64 || j.l == 129 || j.kind == "fpre") && rep.samples.iter().all(|s| s["kind"] != j.kind) {
            rep.sample(json!({"kind": j.kind, "n": j.n, "fashare_len": j.l, "and_triples": j.and_l, "pattern": format!("{:?}", j.pattern), "bucket_size": if j.and_l > 0 { pv::bucket_size(j.and_l) } else { 0 }}));
        }
    }
    if !vac.is_empty() {
        rep.set("batches_without_both_bit_values", json!(vac));
    }
    rep.evaluations = done;
    rep.distinct_nontrivial = nontrivial;
    rep.exhaustive = Some(done as usize == jobs.len());
    rep.set("planned_jobs", json!(jobs.len()));
    rep.set("cap_hit", json!((done as usize) < jobs.len()));
    rep.rule = "jobs = (kind, n, batch length, AND count, left/right pattern, tape): fashare for n=2..5 over the length set; fashare+beaver_aand for n=2..4 with fresh / xor-combined / constant-forced operands; real fpre dealer with harness-side parties for n=2..4; all parties' shared coins compared. Every index of every returned vector and every ordered pair is checked. non-trivial = the batch contains both bit values (and all four (a,b) combinations for AND batches of >= 16)".into();
    rep.assumptions = vec!["the guarded API wrappers call the engine's own fashare / beaver_aand / shared_rng / fpre with unchanged arguments".into()];
    rep.finish()
}
