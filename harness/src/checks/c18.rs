//! C18 - documented-invalid arguments are rejected up front without traffic or panic.

use std::sync::Arc;

use polytune::garble_lang::register_circuit::{Circuit, Input, Inst, Op, Reg, Xor};
use serde_json::json;

use crate::circuits::{B, Circ};
use crate::exec::{ExecCfg, Outcome, mix, run_default};
use crate::mpcrun::{PartyArgs, mpc_body_args};
use crate::util::{Report, Tier, par_map};

#[derive(Clone, Debug, PartialEq)]
enum Expect {
    /// must return Err with zero channel operations
    ErrNoTraffic,
    /// Err without traffic, or every party finishes with the de-duplicated result
    ErrOrSet,
    /// must behave like the valid configuration
    Valid,
    /// only: no panic
    NoPanic,
}

#[derive(Clone)]
struct Case {
    name: String,
    class: String,
    args: Vec<PartyArgs>,
    /// parties that got the altered argument
    altered: Vec<usize>,
    expect: Expect,
    expected_out: Vec<bool>,
    dedup_p_out: Vec<usize>,
}

fn base_triples() -> Vec<(Circ, Vec<Vec<bool>>, usize, Vec<usize>)> {
    let mut v = vec![];
    {
        let mut b = B::new(&[1, 1]);
        let a = b.and(0, 1);
        let c = b.not(a);
        v.push((b.out(&[c, a]), vec![vec![true], vec![true]], 0usize, vec![0usize, 1]));
    }
    {
        let mut b = B::new(&[2, 1]);
        let a = b.xor(0, 2);
        let c = b.and(a, 1);
        v.push((b.out(&[c]), vec![vec![true, true], vec![false]], 1, vec![1]));
    }
    {
        let mut b = B::new(&[1, 1, 1]);
        let a = b.and(0, 1);
        let c = b.xor(a, 2);
        v.push((b.out(&[c, 2]), vec![vec![true], vec![true], vec![false]], 2, vec![0, 2]));
    }
    v
}

fn valid_args(t: &(Circ, Vec<Vec<bool>>, usize, Vec<usize>)) -> Vec<PartyArgs> {
    let circ = Arc::new(t.0.to_polytune());
    (0..t.0.n())
        .map(|p| PartyArgs {
            circ: circ.clone(),
            inputs: t.1[p].clone(),
            p_eval: t.2,
            p_own: p,
            p_out: t.3.clone(),
        })
        .collect()
}

fn circ_mut<'a>(f: &'a dyn Fn(&mut Circuit)) -> impl Fn(&mut PartyArgs) + 'a {
    move |a: &mut PartyArgs| {
        let mut c = (*a.circ).clone();
        f(&mut c);
        a.circ = Arc::new(c);
    }
}

fn build_cases() -> Vec<Case> {
    let mut cases = vec![];
    for (ti, t) in base_triples().iter().enumerate() {
        let n = t.0.n();
        let expected_out = t.0.eval(&t.1);
        let base = valid_args(t);
        let bad_idx = [n, n + 1, 1usize << 31, usize::MAX];
        // the altered argument is given to one party (each position) or to all parties
        let mut targets: Vec<Vec<usize>> = (0..n).map(|p| vec![p]).collect();
        targets.push((0..n).collect());
        let mut push = |name: String, class: &str, who: &Vec<usize>, f: &dyn Fn(&mut PartyArgs), expect: Expect, dedup: Vec<usize>| {
            let mut args = base.clone();
            for &p in who {
                f(&mut args[p]);
            }
            cases.push(Case {
                name: format!("t{ti}/{name}/who{who:?}"),
                class: class.to_string(),
                args,
                altered: who.clone(),
                expect,
                expected_out: expected_out.clone(),
                dedup_p_out: dedup,
            });
        };
        for who in &targets {
            for &b in &bad_idx {
                if who.len() == 1 {
                    push(format!("p_own={b}"), "p_own", who, &|a| a.p_own = b, Expect::ErrNoTraffic, vec![]);
                }
                push(format!("p_eval={b}"), "p_eval", who, &|a| a.p_eval = b, Expect::ErrNoTraffic, vec![]);
                push(format!("p_out=[{b}]"), "p_out_range", who, &|a| a.p_out = vec![b], Expect::ErrNoTraffic, vec![]);
                push(format!("p_out=[0,{b}]"), "p_out_range", who, &|a| a.p_out = vec![0, b], Expect::ErrNoTraffic, vec![]);
                push(format!("p_out=[{b},0]"), "p_out_range", who, &|a| a.p_out = vec![b, 0], Expect::ErrNoTraffic, vec![]);
                push(format!("p_out=[1,{b},0]"), "p_out_range", who, &|a| a.p_out = vec![1, b, 0], Expect::ErrNoTraffic, vec![]);
            }
            push("p_out=[]".into(), "p_out_empty", who, &|a| a.p_out = vec![], Expect::ErrNoTraffic, vec![]);
            // input length
            push("inputs-1".into(), "inputs_len", who, &|a| { a.inputs.pop(); }, Expect::ErrNoTraffic, vec![]);
            push("inputs+1".into(), "inputs_len", who, &|a| a.inputs.push(true), Expect::ErrNoTraffic, vec![]);
            push("inputs+1000".into(), "inputs_len", who, &|a| a.inputs.extend(vec![false; 1000]), Expect::ErrNoTraffic, vec![]);
            // circuit validation failures
            push("no_outputs".into(), "circuit_invalid", who, &circ_mut(&|c| c.output_regs.clear()), Expect::ErrNoTraffic, vec![]);
            push("output_out_of_range".into(), "circuit_invalid", who, &circ_mut(&|c| c.output_regs.push(Reg(c.max_reg_count as u32))), Expect::ErrNoTraffic, vec![]);
            push("output_far_out_of_range".into(), "circuit_invalid", who, &circ_mut(&|c| c.output_regs[0] = Reg(u32::MAX)), Expect::ErrNoTraffic, vec![]);
            push("max_reg_too_small".into(), "circuit_invalid", who, &circ_mut(&|c| c.max_reg_count -= 1), Expect::ErrNoTraffic, vec![]);
            push("max_reg_zero".into(), "circuit_invalid", who, &circ_mut(&|c| c.max_reg_count = 0), Expect::ErrNoTraffic, vec![]);
            push("read_before_write".into(), "circuit_invalid", who, &circ_mut(&|c| {
                let k = c.insts.len();
                c.max_reg_count += 1;
                let fresh = Reg(c.max_reg_count as u32 - 1);
                c.insts.insert(k - 1, Inst { out: Reg(0), op: Op::Xor(Xor(fresh, Reg(0))) });
            }), Expect::ErrNoTraffic, vec![]);
            push("no_inputs".into(), "circuit_invalid", who, &circ_mut(&|c| c.input_regs.iter_mut().for_each(|x| *x = 0)), Expect::ErrNoTraffic, vec![]);
            // counters that disagree with the instructions: no panic
            push("and_ops+1".into(), "counter_and_ops", who, &circ_mut(&|c| c.and_ops += 1), Expect::NoPanic, vec![]);
            push("and_ops-1".into(), "counter_and_ops", who, &circ_mut(&|c| c.and_ops -= 1), Expect::NoPanic, vec![]);
            push("and_ops=0".into(), "counter_and_ops", who, &circ_mut(&|c| c.and_ops = 0), Expect::NoPanic, vec![]);
            push("and_ops+1500".into(), "counter_and_ops", who, &circ_mut(&|c| c.and_ops += 1500), Expect::NoPanic, vec![]);
            push("late_input_inst".into(), "late_input", who, &circ_mut(&|c| {
                // an Input instruction after a gate; passes Circuit::validate when position == register
                let pos = c.insts.len();
                if c.max_reg_count < pos + 1 {
                    c.max_reg_count = pos + 1;
                }
                c.insts.push(Inst { out: Reg(pos as u32), op: Op::Input(Input { party: 0, input: 0 }) });
            }), Expect::NoPanic, vec![]);
            push("late_input_inst_counted".into(), "late_input", who, &circ_mut(&|c| {
                let pos = c.insts.len();
                if c.max_reg_count < pos + 1 {
                    c.max_reg_count = pos + 1;
                }
                c.insts.push(Inst { out: Reg(pos as u32), op: Op::Input(Input { party: 0, input: c.input_regs[0] as u32 }) });
                c.input_regs[0] += 1;
            }), Expect::NoPanic, vec![]);
            {
                // same, with the owner's input vector extended so that the argument check passes
                let cm = circ_mut(&|c| {
                    let pos = c.insts.len();
                    if c.max_reg_count < pos + 1 {
                        c.max_reg_count = pos + 1;
                    }
                    c.insts.push(Inst { out: Reg(pos as u32), op: Op::Input(Input { party: 0, input: c.input_regs[0] as u32 }) });
                    c.input_regs[0] += 1;
                });
                push("late_input_inst_counted_with_input".into(), "late_input", who, &|a| {
                    cm(a);
                    if a.p_own == 0 {
                        a.inputs.push(true);
                    }
                }, Expect::NoPanic, vec![]);
            }
            push("input_party_out_of_range".into(), "input_fields", who, &circ_mut(&|c| {
                if let Op::Input(i) = &mut c.insts[0].op {
                    i.party = 7;
                }
            }), Expect::NoPanic, vec![]);
            push("input_index_out_of_range".into(), "input_fields", who, &circ_mut(&|c| {
                if let Op::Input(i) = &mut c.insts[0].op {
                    i.input = 9;
                }
            }), Expect::NoPanic, vec![]);
            // every Input instruction x boundary and far-out values of both fields
            let input_positions: Vec<usize> = t.0.to_polytune().insts.iter().enumerate().filter(|(_, i)| matches!(i.op, Op::Input(_))).map(|(k, _)| k).collect();
            for &k in &input_positions {
                for delta in [0u32, 1, 7] {
                    push(format!("inst{k}.input=len+{delta}"), "input_fields", who, &circ_mut(&move |c| {
                        if let Op::Input(i) = &mut c.insts[k].op {
                            i.input = c.input_regs.get(i.party as usize).copied().unwrap_or(0) as u32 + delta;
                        }
                    }), Expect::NoPanic, vec![]);
                }
                push(format!("inst{k}.input=max"), "input_fields", who, &circ_mut(&move |c| {
                    if let Op::Input(i) = &mut c.insts[k].op {
                        i.input = u32::MAX;
                    }
                }), Expect::NoPanic, vec![]);
                for party in [n as u32, n as u32 + 1, u32::MAX] {
                    push(format!("inst{k}.party={party}"), "input_fields", who, &circ_mut(&move |c| {
                        if let Op::Input(i) = &mut c.insts[k].op {
                            i.party = party;
                        }
                    }), Expect::NoPanic, vec![]);
                }
                // another party's (valid) index: the instruction order no longer matches the owners
                push(format!("inst{k}.party=next"), "input_fields", who, &circ_mut(&move |c| {
                    if let Op::Input(i) = &mut c.insts[k].op {
                        i.party = (i.party + 1) % n as u32;
                    }
                }), Expect::NoPanic, vec![]);
            }
            push("input_regs_longer".into(), "input_regs_len", who, &circ_mut(&|c| c.input_regs.push(0)), Expect::NoPanic, vec![]);
            push("input_regs_shorter".into(), "input_regs_len", who, &circ_mut(&|c| { c.input_regs.pop(); }), Expect::NoPanic, vec![]);
        }
        // output sets: repeated / unsorted indices, given to all parties consistently
        let all: Vec<usize> = (0..n).collect();
        let rep1 = vec![1usize, 1];
        let rep2 = vec![0usize, 1, 0];
        push("p_out=[1,1]".into(), "p_out_repeated", &all, &|a| a.p_out = rep1.clone(), Expect::ErrOrSet, vec![1]);
        push("p_out=[0,1,0]".into(), "p_out_repeated", &all, &|a| a.p_out = rep2.clone(), Expect::ErrOrSet, vec![0, 1]);
        let uns: Vec<usize> = (0..n).rev().collect();
        push(format!("p_out={uns:?}"), "p_out_unsorted", &all, &|a| a.p_out = uns.clone(), Expect::Valid, (0..n).collect());
    }
    cases
}

/// Child mode: one party gets a circuit whose and_ops counter is absurdly large; run in its own
/// process because an allocation failure aborts.
pub fn huge_child(value: usize, all: bool) -> i32 {
    let t = &base_triples()[0];
    let mut args = valid_args(t);
    for (p, a) in args.iter_mut().enumerate() {
        if all || p == 0 {
            let mut c = (*a.circ).clone();
            c.and_ops = value;
            a.circ = Arc::new(c);
        }
    }
    let cfg = ExecCfg::new(2, 5);
    let r = run_default(&cfg, mpc_body_args(args));
    for (p, o) in r.outcomes.iter().enumerate() {
        println!("HUGE party {p}: {}", o.kind());
        if let Outcome::Panic(m) = o {
            println!("HUGE panic: {m}");
        }
    }
    0
}

pub fn main(tier: Tier, seed: u64, rest: &[String]) -> i32 {
    if let Some(pos) = rest.iter().position(|a| a == "--huge") {
        let v: usize = rest.get(pos + 1).and_then(|s| s.parse().ok()).unwrap_or(usize::MAX);
        let all = rest.get(pos + 2).map(|s| s == "all").unwrap_or(false);
        return huge_child(v, all);
    }
    let mut rep = Report::new("C18", tier, seed, "exploration");
    if let Err(e) = super::selftest::determinism(seed) {
        rep.machinery(e);
        return rep.finish();
    }
    let cases = build_cases();
    let results = par_map(&cases, |_, i, c| {
        let n = c.args.len();
        let cfg = ExecCfg::new(n, mix(seed, i as u64));
        let r = run_default(&cfg, mpc_body_args(c.args.clone()));
        let ops_by_party: Vec<usize> = (0..n).map(|p| r.ops.iter().filter(|o| o.party == p).count()).collect();
        (r.outcomes, ops_by_party, r.deadlock)
    });
    let mut distinct = std::collections::HashSet::new();
    for (c, (outs, ops, deadlock)) in cases.iter().zip(results.iter()) {
        rep.evaluations += 1;
        distinct.insert(c.name.clone());
        let n = c.args.len();
        let mut problems = vec![];
        for p in 0..n {
            if let Outcome::Panic(m) = &outs[p] {
                problems.push(("panic", format!("party {p} panicked: {m}")));
            }
        }
        if *deadlock {
            problems.push(("hang", "no party can make progress".to_string()));
        }
        match c.expect {
            Expect::ErrNoTraffic => {
                for &p in &c.altered {
                    match &outs[p] {
                        Outcome::Err(_) if ops[p] == 0 => {}
                        Outcome::Err(e) => problems.push(("err_after_traffic", format!("party {p} returned Err only after {} channel operations ({})", ops[p], e.chars().take(80).collect::<String>()))),
                        Outcome::Ok(v) => problems.push(("accepted", format!("party {p} returned Ok({v:?})"))),
                        Outcome::Panic(_) => {}
                        Outcome::Crashed => problems.push(("hang", format!("party {p} never returned"))),
                    }
                }
            }
            Expect::ErrOrSet | Expect::Valid => {
                let all_err_no_traffic = c.expect == Expect::ErrOrSet && (0..n).all(|p| outs[p].is_err() && ops[p] == 0);
                let as_set = (0..n).all(|p| match &outs[p] {
                    Outcome::Ok(v) => {
                        if c.dedup_p_out.contains(&p) { *v == c.expected_out } else { v.is_empty() }
                    }
                    _ => false,
                });
                if !(all_err_no_traffic || as_set) {
                    problems.push(("neither_rejected_nor_set", format!("outcomes {:?} ops {:?}", outs.iter().map(|o| match o { Outcome::Err(e) => format!("Err({})", e.chars().take(60).collect::<String>()), o => format!("{o:?}") }).collect::<Vec<_>>(), ops)));
                }
            }
            Expect::NoPanic => {}
        }
        if rep.samples.len() < 5 && rep.evaluations % 97 == 1 {
            rep.sample(json!({"case": c.name, "expect": format!("{:?}", c.expect), "outcomes": outs.iter().map(|o| o.kind()).collect::<Vec<_>>(), "ops": ops}));
        }
        for (kind, d) in problems {
            rep.violation(format!("{}:{kind}", c.class), format!("{}: {d}", c.name), json!({"kind":"c18","name": c.name}));
        }
    }
    // absurd and_ops counters, each in its own process (an allocation failure aborts)
    let exe = std::env::current_exe().expect("exe");
    let mut huge_runs = 0;
    for value in [1usize << 40, usize::MAX / 64, usize::MAX - 1, usize::MAX] {
        for all in ["one", "all"] {
            let out = std::process::Command::new(&exe).args(["C18", "quick", "--huge", &value.to_string(), all]).env("PVX_THREADS", "1").output();
            rep.evaluations += 1;
            huge_runs += 1;
            distinct.insert(format!("huge/{value}/{all}"));
            match out {
                Err(e) => rep.machinery(format!("cannot spawn child: {e}")),
                Ok(o) => {
                    let txt = String::from_utf8_lossy(&o.stdout).to_string();
                    if !o.status.success() {
                        rep.violation("counter_and_ops:abort", format!("and_ops={value} given to {all} part(y/ies): the process died ({}) - allocation failure / abort", o.status), json!({"kind":"c18","name":format!("huge and_ops {value} {all}")}));
                    } else if txt.contains("HUGE panic") {
                        let m = txt.lines().find(|l| l.starts_with("HUGE panic")).unwrap_or("").to_string();
                        rep.violation("counter_and_ops:panic", format!("and_ops={value} given to {all} part(y/ies): {m}"), json!({"kind":"c18","name":format!("huge and_ops {value} {all}")}));
                    }
                }
            }
        }
    }
    rep.set("huge_and_ops_child_runs", json!(huge_runs));
    rep.distinct_nontrivial = distinct.len() as u64;
    rep.exhaustive = Some(true);
    rep.rule = "three valid (circuit, inputs, roles) triples for n=2,3; one argument at a time takes every value of its invalid menu (given to each single party and to all parties); distinct = (triple, altered argument, value, recipients); every case is non-trivial (an argument is invalid or non-canonical)".into();
    rep.assumptions = vec!["'before sending any message' = zero Channel operations issued by that party (sends and receives)".into()];
    rep.finish()
}
