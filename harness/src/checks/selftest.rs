//! Determinism self-test: the same (configuration, seed, schedule) must give byte-identical
//! transcripts and the same choice-point structure.  Run by every check before it trusts a verdict.

use crate::circuits::B;
use crate::exec::{ExecCfg, run, run_digest, run_prefix};
use crate::mpcrun::{MpcCase, mpc_body};

pub fn small_case() -> MpcCase {
    let mut b = B::new(&[1, 1]);
    let a = b.and(0, 1);
    let c = b.not(a);
    let d = b.and(c, 0);
    let circ = b.out(&[d, a]);
    MpcCase {
        circ,
        inputs: vec![vec![true], vec![true]],
        p_eval: 0,
        p_out: vec![0, 1],
        tmp_mask: 0,
    }
}

/// Returns Err(description) if the harness does not own all nondeterminism.
pub fn determinism(seed: u64) -> Result<(), String> {
    let case = small_case();
    let cfg = ExecCfg::new(2, seed).cap(Some(1));
    let r1 = run(&cfg, mpc_body(&case, 900), &mut |_, _| 0, true);
    let r2 = run(&cfg, mpc_body(&case, 900), &mut |_, _| 0, true);
    let (d1, d2) = (run_digest(&r1), run_digest(&r2));
    if d1 != d2 {
        return Err(format!("two default-schedule runs differ: {d1} vs {d2}"));
    }
    // correctness of the result is C01's business; the self-test only establishes that the harness
    // owns every source of nondeterminism
    // a non-default schedule: take the last enabled action at every third choice point
    let mut k = 0usize;
    let r3 = run(
        &cfg,
        mpc_body(&case, 900),
        &mut |en, _| {
            k += 1;
            if k % 3 == 0 { en.len() - 1 } else { 0 }
        },
        true,
    );
    let prefix: Vec<usize> = r3.choices.iter().map(|c| c.chosen).collect();
    let r4 = run_prefix(&cfg, mpc_body(&case, 900), &prefix, true);
    if run_digest(&r3) != run_digest(&r4) {
        return Err("replaying a recorded schedule diverged".into());
    }
    // a different seed must change the transcript (entropy really comes from the harness)
    let cfg2 = ExecCfg::new(2, seed ^ 0x5555).cap(Some(1));
    let r5 = run(&cfg2, mpc_body(&case, 900), &mut |_, _| 0, true);
    if run_digest(&r5) == d1 {
        return Err("changing the execution seed did not change the transcript".into());
    }
    Ok(())
}

pub fn main() -> i32 {
    let t = std::time::Instant::now();
    match determinism(crate::util::seed_from_env()) {
        Ok(()) => {
            let case = small_case();
            let cfg = ExecCfg::new(2, 1);
            let r = run(&cfg, mpc_body(&case, 900), &mut |_, _| 0, true);
            println!(
                "selftest ok: msgs={} actions={} polls={:?} choice_points={} max_outstanding={} wall={:.2}s",
                r.msgs.len(),
                r.actions,
                r.polls,
                r.choices.len(),
                r.max_outstanding,
                t.elapsed().as_secs_f64()
            );
            0
        }
        Err(e) => {
            println!("MACHINERY-ERROR check=selftest {e}");
            2
        }
    }
}
