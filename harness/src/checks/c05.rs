//! C05 - only designated output parties obtain the result.

use serde_json::json;

use crate::circuits::feature_circuits;
use crate::exec::{Dir, RunResult, mix};
use crate::mpcrun::{MpcCase, check_honest, nonempty_subsets, run_case};
use crate::schema::{Val, decode_msg};
use crate::util::{Report, Tier, par_map};

const INPUT_STAGE: [&str; 4] = ["wire shares", "masked inputs", "broadcast masked inputs", "labels"];

fn is_pre_label(l: &str) -> bool {
    !(l == "output wire shares" || l == "lambda") && crate::schema::item_type(l).is_some()
}

pub fn monitor(case: &MpcCase, r: &RunResult<Vec<bool>>) -> Result<u32, String> {
    let n = case.n();
    let outregs: std::collections::BTreeSet<u32> = case.circ.outputs.iter().copied().collect();
    let mut post_msgs = 0u32;
    for q in 0..n {
        // end of input processing for q: completion of its last input-stage operation
        let t_q = r
            .ops
            .iter()
            .filter(|o| o.party == q && INPUT_STAGE.contains(&o.label.as_str()))
            .filter_map(|o| o.complete_t)
            .max()
            .ok_or_else(|| format!("party {q} has no input-stage operation"))?;
        for o in r.ops.iter().filter(|o| o.dir == Dir::Send && o.peer == q && o.issue_t != 0) {
            let post = !is_pre_label(&o.label) || o.issue_t > t_q;
            if !post {
                continue;
            }
            post_msgs += 1;
            let from = o.party;
            if !case.p_out.contains(&q) {
                return Err(format!(
                    "party {q} is not an output party but party {from} sent it {:?} ({} bytes) after input processing",
                    o.label, o.len
                ));
            }
            match o.label.as_str() {
                "output wire shares" => {}
                "lambda" => {
                    if from != case.p_eval {
                        return Err(format!("'lambda' sent to {q} by non-evaluator {from}"));
                    }
                }
                other => {
                    return Err(format!("output party {q} was sent {other:?} by {from} after input processing"));
                }
            }
            let Some(mi) = o.msg else { continue };
            let v = decode_msg(&o.label, &r.msgs[mi].bytes).map_err(|e| format!("MACHINERY: {e}"))?;
            let Val::Vec(items) = v else { return Err("MACHINERY: not a vec".into()) };
            for (w, it) in items.iter().enumerate() {
                let some = matches!(it, Val::Opt(Some(_)));
                let should = outregs.contains(&(w as u32));
                if some && !should {
                    return Err(format!(
                        "{:?} from {from} to {q} carries a value for register {w}, which is not an output register",
                        o.label
                    ));
                }
            }
        }
    }
    Ok(post_msgs)
}

pub fn main(tier: Tier, seed: u64) -> i32 {
    let mut rep = Report::new("C05", tier, seed, "exploration");
    if let Err(e) = super::selftest::determinism(seed) {
        rep.machinery(e);
        return rep.finish();
    }
    let mut cases: Vec<(String, MpcCase)> = vec![];
    for n in [2usize, 3, 4] {
        let feats = feature_circuits(n);
        // circuits: register reuse/alias, outputs that are inputs, duplicated outputs, plain
        let pick: Vec<usize> = match (tier.is_thorough(), n) {
            (true, _) => (0..feats.len()).collect(),
            (false, 2) => (0..feats.len()).collect(),
            (false, 3) => vec![0, 2, 4, 5, 7],
            (false, _) => vec![4, 7],
        };
        for fi in pick {
            let (name, c) = &feats[fi];
            for p_eval in 0..n {
                for p_out in nonempty_subsets(n) {
                    let all_in = c.all_inputs();
                    let k = if tier.is_thorough() || n == 2 { 2 } else { 1 };
                    for j in 0..k {
                        let inputs = all_in[(p_eval * 3 + p_out.len() + j * 5 + 1) % all_in.len()].clone();
                        cases.push((
                            format!("{name}/n{n}"),
                            MpcCase { circ: c.clone(), inputs, p_eval, p_out: p_out.clone(), tmp_mask: 0 },
                        ));
                    }
                }
            }
        }
    }
    // output sets given with repeated / unsorted indices (they denote the same set)
    for n in [2usize, 3] {
        let feats = feature_circuits(n);
        let (name, c) = &feats[4];
        let lists: Vec<Vec<usize>> = if n == 2 { vec![vec![1, 1], vec![0, 0], vec![1, 0]] } else { vec![vec![1, 1, 2], vec![0, 0, 0], vec![2, 1, 2], vec![2, 0], vec![1, 1]] };
        for p_out in lists {
            for p_eval in 0..n {
                let inputs = c.all_inputs()[(p_eval + p_out.len()) % c.all_inputs().len()].clone();
                cases.push((format!("{name}/n{n}/repeated"), MpcCase { circ: c.clone(), inputs, p_eval, p_out: p_out.clone(), tmp_mask: 0 }));
            }
        }
    }
    let results = par_map(&cases, |w, i, (_, case)| {
        let r = run_case(case, mix(seed, i as u64), w);
        (check_honest(case, &r), monitor(case, &r))
    });
    let mut distinct = std::collections::HashSet::new();
    for ((name, case), (honest, mon)) in cases.iter().zip(results.iter()) {
        rep.evaluations += 1;
        if let Err(e) = honest {
            rep.violation("honest_run_failed", format!("{name}: {e}"), json!({"kind":"mpc_case","case":case}));
            continue;
        }
        match mon {
            Ok(post) => {
                // non-trivial: some party is outside the output set or the evaluator is outside it
                if case.p_out.len() < case.n() {
                    distinct.insert((name.clone(), case.p_eval, case.p_out.clone()));
                }
                if rep.samples.len() < 4 && case.p_out.len() < case.n() && !case.p_out.contains(&case.p_eval) {
                    rep.sample(json!({"case": case.show(), "post_input_messages": post}));
                }
            }
            Err(e) if e.starts_with("MACHINERY") => rep.machinery(e.clone()),
            Err(e) => {
                let class = if e.contains("not an output party") {
                    "sent_to_non_output_party"
                } else if e.contains("not an output register") {
                    "non_output_register_revealed"
                } else {
                    "unexpected_post_input_message"
                };
                rep.violation(class, format!("{e} in {}", case.show()), json!({"kind":"mpc_case","case":case}));
            }
        }
    }
    rep.distinct_nontrivial = distinct.len() as u64;
    rep.exhaustive = Some(true);
    rep.rule = "feature circuits (register reuse where an output register aliases an internal wire, outputs that are inputs, duplicated outputs) x every p_eval x every non-empty p_out for n=2..4; monitor over recorded, schema-decoded traffic. distinct = (circuit, n, p_eval, p_out); non-trivial = at least one party is outside the output set".into();
    rep.assumptions = vec!["stage of a message = its label is an output-stage label, or it was issued after the recipient completed its last input-stage operation (global logical clock)".into()];
    rep.finish()
}
