//! C16 - server core: incompatible policies are rejected before any MPC traffic.

use serde_json::json;

use super::c13::{coordination_only, spec};
use crate::srv::{MsgPolicy, comp_id, make_policies};
use crate::srvx::{SrvSpace, explore};
use crate::util::{Budget, Report, Tier};

#[derive(Clone, Debug)]
enum Mismatch {
    Program { follower: usize },
    Leader { follower: usize, claims: usize },
    IllTyped { party: usize },
}

pub fn main(tier: Tier, seed: u64) -> i32 {
    let mut rep = Report::new("C16", tier, seed, "model_checking");
    if let Err(e) = crate::srvx::selftest(seed) {
        rep.machinery(e);
        return rep.finish();
    }
    let budget = Budget::new(if tier.is_thorough() { 900.0 } else { 40.0 });
    let mut plan: Vec<(usize, usize, Mismatch)> = vec![];
    for n in [2usize, 3] {
        for leader in 0..n {
            for f in (0..n).filter(|f| *f != leader) {
                plan.push((n, leader, Mismatch::Program { follower: f }));
                if n == 3 {
                    let other = (0..n).find(|p| *p != leader && *p != f).unwrap();
                    plan.push((n, leader, Mismatch::Leader { follower: f, claims: other }));
                }
            }
            for p in 0..n {
                plan.push((n, leader, Mismatch::IllTyped { party: p }));
            }
        }
    }
    let (mut states, mut transitions, mut histories) = (0u64, 0u64, 0u64);
    let mut all_done = true;
    let mut configs = vec![];
    for (ci, (n, leader, mm)) in plan.iter().enumerate() {
        if budget.exhausted() {
            all_done = false;
            continue;
        }
        let (sp, _) = spec(*n, *leader, &[], vec![true; *n]);
        let mut pols = make_policies(&sp, comp_id(seed, 1600 + ci as u64));
        match mm {
            Mismatch::Program { follower } => pols[*follower].program = pols[*follower].program.replace(" ^ ", " ^ true ^ "),
            Mismatch::Leader { follower, claims } => pols[*follower].leader = *claims,
            Mismatch::IllTyped { party } => pols[*party].program = "pub fn main(a: bool, b: bool) -> bool { a + 1u8 }".into(),
        }
        let space = SrvSpace { n: *n, concurrency: 1, policies: vec![pols], seed: crate::exec::mix(seed, 1600 + ci as u64), msg_policy: MsgPolicy::Eager };
        let ex = explore(&space, vec![], &coordination_only, &budget, 20_000, false);
        states += ex.states;
        transitions += ex.transitions;
        histories += ex.complete.len() as u64;
        if ex.capped {
            all_done = false;
        }
        for m in ex.machinery.iter().take(2) {
            rep.machinery(m.clone());
        }
        for (h, snap) in &ex.complete {
            let sched = |p: usize| snap.calls.iter().find(|c| c.what == "schedule" && c.party as usize == p).map(|c| c.result.clone());
            let mut problems: Vec<(String, String)> = vec![];
            match mm {
                Mismatch::Program { follower } | Mismatch::Leader { follower, .. } => {
                    for who in [*follower, *leader] {
                        match sched(who) {
                            Some(Err(_)) => {}
                            Some(Ok(())) => problems.push(("schedule_ok_despite_mismatch".into(), format!("schedule of party {who} returned Ok"))),
                            None => problems.push(("schedule_never_answered".into(), format!("schedule of party {who} never returned"))),
                        }
                    }
                }
                Mismatch::IllTyped { party } => match sched(*party) {
                    Some(Err(e)) if e.contains("InvalidProgram") => {}
                    other => problems.push(("ill_typed_not_refused".into(), format!("schedule of party {party} returned {other:?}"))),
                },
            }
            if snap.msg_rpcs_issued != 0 {
                problems.push(("mpc_traffic".into(), format!("{} MPC messages were issued", snap.msg_rpcs_issued)));
            }
            if let Some(o) = snap.outputs.iter().find(|o| o.result.is_ok()) {
                problems.push(("successful_result_sent".into(), format!("party {} was sent a successful result {:?}", o.party, o.result)));
            }
            if let Some((_, p, _)) = snap.actors_finished.iter().find(|a| a.2) {
                problems.push(("actor_panicked".into(), format!("state machine of party {p} panicked")));
            }
            for (p, permits) in snap.permits.iter().enumerate() {
                if *permits != 1 {
                    problems.push(("permit_leaked".into(), format!("party {p} has {permits} of 1 permits at the end")));
                }
            }
            for (class, d) in problems {
                rep.violation(class, format!("n={n} leader={leader} {mm:?}: {d}; history {h:?}"), json!({"kind":"srv16","n":n,"leader":leader,"mismatch":format!("{mm:?}"),"history":h}));
            }
        }
        if rep.samples.len() < 3 && !ex.complete.is_empty() && ci % 3 == 0 {
            let (h, s) = &ex.complete[0];
            rep.sample(json!({"n": n, "leader": leader, "mismatch": format!("{mm:?}"), "history": h.iter().map(|e| format!("{e:?}")).collect::<Vec<_>>(), "schedule_results": s.calls.iter().map(|c| format!("party {}: {:?}", c.party, c.result)).collect::<Vec<_>>()}));
        }
        configs.push(json!({"n": n, "leader": leader, "mismatch": format!("{mm:?}"), "states": ex.states, "complete_histories": ex.complete.len()}));
    }
    rep.evaluations = histories;
    rep.distinct_nontrivial = histories;
    rep.set("states", json!(states));
    rep.set("transitions", json!(transitions));
    rep.set("traces_validated_against_impl", json!(states));
    rep.set("configurations", json!(configs));
    rep.exhaustive = Some(all_done);
    rep.rule = "per (n, leader, mismatch): program differs at one follower / leader field differs at one follower that still regards itself as a follower (n=3) / ill-typed program at one party; all event histories over schedule injections, validate/run deliveries and answers (both arrival orders of validate vs. the follower's schedule fall out), merged by per-process canonical form; oracle at every maximal history: both schedule calls end in an error, zero MPC messages issued, no successful result, permits back".into();
    rep.assumptions = vec!["two self-declared leaders are out of scope (they wait for the RPC timeout)".into()];
    rep.finish()
}
