//! C08 - hostile or vanishing peers cause an error return, never a panic or a hang.

use std::sync::Arc;

use serde_json::{Value, json};

use crate::adv::{MsgMut, byte_level, send_fault, structural};
use crate::circuits::B;
use crate::exec::{ExecCfg, Outcome, RunResult, mix, run_default};
use crate::mpcrun::{MpcCase, check_honest, mpc_body};
use crate::schema::{decode_msg, msg_type, validate_transcript};
use crate::shard::{CaseResult, child_loop, child_spec, run_children};
use crate::util::{Budget, Report, Tier};

pub struct Config {
    pub name: String,
    pub case: MpcCase,
    pub corrupted: usize,
    pub seed: u64,
    pub honest: RunResult<Vec<bool>>,
}

#[derive(Clone)]
pub enum Kind {
    Mut { msg: usize, m: MsgMut },
    Crash(usize),
    /// malformed message followed by a crash right after it
    MutThenCrash { msg: usize, m: MsgMut },
    /// the message is delivered twice (every later receive on that pair is shifted by one)
    Duplicate { msg: usize },
    /// the commitment is recomputed for a malformed opening: (commit msg, bytes), (open msg, bytes)
    Chain { commit: usize, commit_bytes: Arc<Vec<u8>>, open: usize, open_bytes: Arc<Vec<u8>>, what: String },
}

pub struct Case {
    pub cfg: usize,
    pub kind: Kind,
}

pub fn circuit(n: usize) -> crate::circuits::Circ {
    let lay = vec![1usize; n];
    let mut b = B::new(&lay);
    let a = b.and(0, 1);
    let c = b.not(a);
    let d = b.and(c, (n - 1) as u32);
    let e = b.xor(d, 0);
    b.out(&[e, a])
}

pub fn configs(tier: Tier, seed: u64) -> Vec<Config> {
    let mut v = vec![];
    let mut add = |n: usize, corrupted: usize, p_eval: usize| {
        let c = circuit(n);
        let case = MpcCase { inputs: c.inputs_from_mask(0b101), circ: c, p_eval, p_out: (0..n).collect(), tmp_mask: 0 };
        let s = mix(seed, (n * 100 + corrupted * 10 + p_eval) as u64);
        let honest = run_default(&ExecCfg::new(n, s), mpc_body(&case, 800));
        v.push(Config { name: format!("n{n}/corrupt{corrupted}/eval{p_eval}"), case, corrupted, seed: s, honest });
    };
    // n=2: honest party as evaluator and as garbler
    add(2, 1, 0);
    add(2, 0, 0);
    if tier.is_thorough() {
        add(2, 1, 1);
        add(2, 0, 1);
    }
    // n=3: corrupted garbler / corrupted evaluator
    add(3, 1, 0);
    if tier.is_thorough() {
        add(3, 0, 0);
        add(3, 2, 1);
    }
    // several chunks of garbled gates (only the later chunks' messages are altered, see build_cases)
    {
        let c = crate::circuits::and_chain(2, 1100);
        let case = MpcCase { inputs: c.inputs_from_mask(0b11), circ: c, p_eval: 0, p_out: vec![0, 1], tmp_mask: 0 };
        let s = mix(seed, 8111);
        let honest = run_default(&ExecCfg::new(2, s), mpc_body(&case, 800));
        v.push(Config { name: "chain1100/n2/corrupt1/eval0".into(), case, corrupted: 1, seed: s, honest });
    }
    v
}

pub fn build_cases(tier: Tier, cfgs: &[Config]) -> Result<Vec<Case>, String> {
    let mut cases = vec![];
    for (ci, cfg) in cfgs.iter().enumerate() {
        check_honest(&cfg.case, &cfg.honest).map_err(|e| format!("honest base run of {} failed: {e}", cfg.name))?;
        validate_transcript(&cfg.honest.msgs)?;
        let n = cfg.case.n();
        let cap = if tier.is_thorough() { 6 } else { 3 };
        let mut seen_label_to: std::collections::HashMap<(String, usize), usize> = Default::default();
        let sent: Vec<(usize, &crate::exec::MsgRec)> = cfg.honest.msgs.iter().enumerate().filter(|(_, m)| m.from == cfg.corrupted).collect();
        // the multi-chunk configuration: only the second and later chunks of garbled gates
        let big = cfg.case.circ.and_count() > 64;
        for (mi, m) in &sent {
            if big && !(m.label == "preprocessed gates" && m.ord >= 1) {
                continue;
            }
            let ty = msg_type(&m.label).unwrap();
            let val = decode_msg(&m.label, &m.bytes)?;
            let occ = seen_label_to.entry((m.label.clone(), m.to)).or_insert(0);
            *occ += 1;
            // n=3 quick: full menu only for the first two occurrences of a label per recipient
            let reduced = (n >= 3 && !tier.is_thorough() && *occ > 1) || big;
            let mut muts = byte_level(&ty, &val, &m.bytes, mix(cfg.seed, *mi as u64), cap);
            muts.extend(structural(&ty, &val, cap, true, &[]));
            if reduced {
                muts.retain(|x| matches!(x.class.as_str(), "byte:empty" | "byte:random" | "byte:trunc-last" | "struct:VecDropLast" | "struct:SomeToNone"));
                muts.dedup_by(|a, b| a.class == b.class);
            }
            for mm in muts {
                if tier.is_thorough() && mm.class.starts_with("byte:trunc") {
                    cases.push(Case { cfg: ci, kind: Kind::MutThenCrash { msg: *mi, m: mm.clone() } });
                }
                cases.push(Case { cfg: ci, kind: Kind::Mut { msg: *mi, m: mm } });
            }
        }
        if big {
            // the peer vanishes right before / after the later chunks
            for (k, (_, m)) in sent.iter().enumerate() {
                if m.label == "preprocessed gates" && m.ord >= 1 {
                    cases.push(Case { cfg: ci, kind: Kind::Crash(k) });
                    cases.push(Case { cfg: ci, kind: Kind::Crash(k + 1) });
                }
            }
            continue;
        }
        for k in 0..=sent.len() {
            cases.push(Case { cfg: ci, kind: Kind::Crash(k) });
        }
        {
            // duplicated messages: every message in thorough, the first two occurrences per (label, recipient) in quick
            let mut seen: std::collections::HashMap<(String, usize), usize> = Default::default();
            for (mi, m) in &sent {
                let o = seen.entry((m.label.clone(), m.to)).or_insert(0);
                *o += 1;
                if tier.is_thorough() || *o <= 2 {
                    cases.push(Case { cfg: ci, kind: Kind::Duplicate { msg: *mi } });
                }
            }
        }
        // commit to a malformed aShare decommitment: cm = blake3(dm') sent in 'fashare comm', dm' in 'fashare ver'
        for (oi, om) in sent.iter().filter(|(_, m)| m.label == "fashare ver") {
            let Some((cmi, cm)) = sent.iter().find(|(_, m)| m.label == "fashare comm" && m.to == om.to && m.ord == om.ord) else { continue };
            let (Ok(crate::schema::Val::Vec(mut comm)), Ok(crate::schema::Val::Vec(mut open))) = (decode_msg("fashare comm", &cm.bytes), decode_msg("fashare ver", &om.bytes)) else { continue };
            let full = match &open[0] { crate::schema::Val::Vec(b) => b.len(), _ => continue };
            for r in [0usize, 20, 39] {
                for newlen in [0usize, 1, full - 1, full + 1, 8] {
                    let mut dm: Vec<u8> = match &open[r] { crate::schema::Val::Vec(b) => b.iter().map(|x| if let crate::schema::Val::U8(v) = x { *v } else { 0 }).collect(), _ => continue };
                    dm.resize(newlen, 0);
                    let c = blake3::hash(&dm);
                    let mut comm2 = comm.clone();
                    if let crate::schema::Val::Tup(t) = &mut comm2[r] {
                        t[2] = crate::schema::Val::Raw(c.as_bytes().to_vec());
                    }
                    let mut open2 = open.clone();
                    open2[r] = crate::schema::Val::Vec(dm.iter().map(|b| crate::schema::Val::U8(*b)).collect());
                    cases.push(Case {
                        cfg: ci,
                        kind: Kind::Chain {
                            commit: *cmi,
                            commit_bytes: Arc::new(crate::schema::encode_vec(&crate::schema::Val::Vec(comm2))),
                            open: *oi,
                            open_bytes: Arc::new(crate::schema::encode_vec(&crate::schema::Val::Vec(open2))),
                            what: format!("decommitment #{r} of length {newlen} (instead of {full}) with a matching commitment"),
                        },
                    });
                }
            }
            let _ = (&mut comm, &mut open);
        }
    }
    Ok(cases)
}

fn describe(cfgs: &[Config], c: &Case) -> (String, String, String) {
    let cfg = &cfgs[c.cfg];
    match &c.kind {
        Kind::Mut { msg, m } | Kind::MutThenCrash { msg, m } => {
            let mr = &cfg.honest.msgs[*msg];
            let extra = if matches!(c.kind, Kind::MutThenCrash { .. }) { "+crash" } else { "" };
            (mr.label.clone(), format!("{}{extra}", m.class), format!("{}: message {:?} #{} {}->{}: {}{extra}", cfg.name, mr.label, mr.ord, mr.from, mr.to, m.detail))
        }
        Kind::Crash(k) => ("-".into(), "crash".into(), format!("{}: corrupted party stops after its message #{k}", cfg.name)),
        Kind::Duplicate { msg } => {
            let mr = &cfg.honest.msgs[*msg];
            (mr.label.clone(), "duplicate".into(), format!("{}: message {:?} #{} {}->{} is delivered twice", cfg.name, mr.label, mr.ord, mr.from, mr.to))
        }
        Kind::Chain { open, what, .. } => {
            let mr = &cfg.honest.msgs[*open];
            (mr.label.clone(), "chain:commit+malformed_open".into(), format!("{}: {:?} #{} {}->{}: {what}", cfg.name, mr.label, mr.ord, mr.from, mr.to))
        }
    }
}

pub fn run_one(cfgs: &[Config], c: &Case) -> Value {
    let cfg = &cfgs[c.cfg];
    let n = cfg.case.n();
    let mut ec = ExecCfg::new(n, cfg.seed);
    match &c.kind {
        Kind::Mut { msg, m } => {
            ec.faults.push(send_fault(&cfg.honest.msgs[*msg], m.bytes.clone()));
        }
        Kind::MutThenCrash { msg, m } => {
            let mr = &cfg.honest.msgs[*msg];
            ec.faults.push(send_fault(mr, m.bytes.clone()));
            ec.crash_after[cfg.corrupted] = Some(mr.sender_ord + 1);
        }
        Kind::Crash(k) => {
            ec.crash_after[cfg.corrupted] = Some(*k);
        }
        Kind::Duplicate { msg } => {
            let mr = &cfg.honest.msgs[*msg];
            ec.faults.push(crate::exec::Fault { party: mr.from, dir: crate::exec::Dir::Send, peer: mr.to, label: mr.label.clone(), ord: mr.ord, mutation: crate::exec::Mutation::Duplicate });
        }
        Kind::Chain { commit, commit_bytes, open, open_bytes, .. } => {
            ec.faults.push(send_fault(&cfg.honest.msgs[*commit], commit_bytes.clone()));
            ec.faults.push(send_fault(&cfg.honest.msgs[*open], open_bytes.clone()));
        }
    }
    if let Kind::Crash(0) = c.kind {
        // crash before the first message: the party never even starts
    }
    let r = run_default(&ec, mpc_body(&cfg.case, 801 + c.cfg));
    let mut parties = vec![];
    for p in (0..n).filter(|p| *p != cfg.corrupted) {
        let (kind, msg) = match &r.outcomes[p] {
            Outcome::Ok(_) => ("Ok", String::new()),
            Outcome::Err(e) => ("Err", e.chars().take(100).collect()),
            Outcome::Panic(e) => ("Panic", e.chars().take(160).collect()),
            Outcome::Crashed => ("Hang", String::new()),
        };
        parties.push(json!({"p": p, "kind": kind, "msg": msg, "peak": r.alloc[p].peak, "largest": r.alloc[p].largest, "delivered": r.bytes_delivered[p]}));
    }
    json!({"parties": parties, "deadlock": r.deadlock, "fault_hit": r.faults_hit.is_empty() || r.faults_hit.iter().any(|h| *h), "cap": r.cap_hit})
}

pub fn main(tier: Tier, seed: u64, rest: &[String]) -> i32 {
    let cfgs = configs(tier, seed);
    let cases = match build_cases(tier, &cfgs) {
        Ok(c) => c,
        Err(e) => {
            let mut rep = Report::new("C08", tier, seed, "fault_enumeration");
            rep.machinery(e);
            return rep.finish();
        }
    };
    if let Some(spec) = child_spec(rest) {
        child_loop(&spec, cases.len(), |i| run_one(&cfgs, &cases[i]));
        return 0;
    }
    let mut rep = Report::new("C08", tier, seed, "fault_enumeration");
    if let Err(e) = super::selftest::determinism(seed) {
        rep.machinery(e);
        return rep.finish();
    }
    let budget = Budget::new(if tier.is_thorough() { 1500.0 } else { 100.0 });
    let results = run_children("C08", tier.name(), cases.len(), crate::util::threads(), &budget);
    let mut distinct = std::collections::HashSet::new();
    let mut done = 0u64;
    let mut outcomes: std::collections::BTreeMap<String, u64> = Default::default();
    for (c, r) in cases.iter().zip(results.iter()) {
        let (label, class, detail) = describe(&cfgs, c);
        let replay = json!({"kind":"c08","config": cfgs[c.cfg].name, "detail": detail});
        match r {
            CaseResult::NotRun => {}
            CaseResult::Aborted(how) => {
                done += 1;
                rep.violation(format!("abort@{label}"), format!("{detail}: {how}"), replay);
            }
            CaseResult::Done(v) => {
                done += 1;
                distinct.insert((cfgs[c.cfg].name.clone(), label.clone(), class.clone()));
                if v["cap"].as_bool() == Some(true) {
                    rep.machinery(format!("action cap hit in {detail}"));
                }
                if v["fault_hit"].as_bool() == Some(false) && !matches!(c.kind, Kind::Crash(_)) {
                    rep.machinery(format!("fault was never applied in {detail}"));
                }
                for p in v["parties"].as_array().unwrap() {
                    let kind = p["kind"].as_str().unwrap();
                    *outcomes.entry(kind.to_string()).or_insert(0) += 1;
                    let who = p["p"].as_u64().unwrap();
                    match kind {
                        "Panic" => {
                            let site = p["msg"].as_str().unwrap().split(':').next().unwrap_or("").chars().take(40).collect::<String>();
                            rep.violation(format!("panic@{label}:{site}"), format!("{detail}: honest party {who} panicked: {}", p["msg"].as_str().unwrap()), replay.clone());
                        }
                        "Hang" => {
                            rep.violation(format!("hang@{label}"), format!("{detail}: honest party {who} never returns although all its peers have terminated"), replay.clone());
                        }
                        _ => {}
                    }
                    let peak = p["peak"].as_u64().unwrap();
                    let largest = p["largest"].as_u64().unwrap();
                    let delivered = p["delivered"].as_u64().unwrap();
                    if peak > (64 << 20) + 64 * delivered || largest > (1 << 30) {
                        rep.violation(format!("alloc@{label}"), format!("{detail}: honest party {who} peak live heap {peak} bytes, largest request {largest}, delivered {delivered}"), replay.clone());
                    }
                }
                if rep.samples.len() < 5 && (done % 211 == 1) {
                    rep.sample(json!({"case": detail, "honest_outcomes": v["parties"].as_array().unwrap().iter().map(|p| format!("party {}: {} {}", p["p"], p["kind"].as_str().unwrap(), p["msg"].as_str().unwrap())).collect::<Vec<_>>()}));
                }
            }
        }
    }
    let _ = Arc::new(0);
    rep.evaluations = done;
    rep.distinct_nontrivial = distinct.len() as u64;
    rep.exhaustive = Some(done as usize == cases.len());
    rep.set("planned_cases", json!(cases.len()));
    rep.set("cap_hit", json!((done as usize) < cases.len()));
    rep.set("honest_party_outcomes", json!(outcomes));
    rep.set("configurations", json!(cfgs.iter().map(|c| json!({"name": c.name, "messages_sent_by_corrupted": c.honest.msgs.iter().filter(|m| m.from == c.corrupted).count()})).collect::<Vec<_>>()));
    rep.rule = "per configuration (n, corrupted party, evaluator): for every message ordinal of the corrupted sender, every byte-level class (empty, truncation at structural boundaries and one byte short, trailing garbage, length prefixes 2^32 / 2^60 / +1 at outer and nested length fields, random bytes) and every structure-aware mutation that changes an element count or drops/adds an optional; every crash point k = 0..#messages. Runs in worker subprocesses so that an abort is attributed to its case. distinct = (configuration, label, mutation class); every case alters the honest transcript (identical re-encodings are discarded)".into();
    rep.assumptions = vec![
        "heap accounting covers allocations made on the party's thread during its polls".into(),
        "'bounded time' = the deterministic executor reaches 'no enabled action' (exact), not a wall-clock limit".into(),
    ];
    rep.finish()
}
