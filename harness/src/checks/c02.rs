//! C02 - a malicious peer can never make an honest party accept a wrong output.

use std::sync::Arc;

use polytune::verif::Hook;
use serde_json::json;

use crate::campaign::{Config, FCase, Rule, faults_of, gen_cases, make_config, replay_json, run_faults, tape_seed};
use crate::circuits::{B, Circ};
use crate::hooks::TapSpec;
use crate::mpcrun::MpcCase;
use crate::schema::NodeMut;
use crate::util::{Report, Tier, par_map};

/// Circuits where a wrong output cannot hide behind an input substitution: one output depends on
/// the other party's inputs only, and the corrupted party's bits can be read off the outputs.
fn circuits() -> Vec<(&'static str, Circ, Vec<Vec<bool>>)> {
    let mut v = vec![];
    {
        let mut b = B::new(&[2, 2]);
        let g1 = b.and(0, 1); // party 0 only
        let g2 = b.and(2, 3); // party 1 only
        let g3 = b.and(0, 2);
        let g4 = b.xor(1, 3);
        v.push(("two_bits_each", b.out(&[g1, g2, g3, g4]), vec![vec![true, true], vec![true, false]]));
    }
    {
        // and-xor mix with a NOT
        let mut b = B::new(&[2, 1]);
        let g1 = b.and(0, 2);
        let g2 = b.not(g1);
        let g3 = b.and(g2, 1);
        let g4 = b.xor(g3, 2);
        let g5 = b.and(0, 1);
        v.push(("and_xor_mix", b.out(&[g4, g5, g1]), vec![vec![true, true], vec![true]]));
    }
    {
        // the second party has no input at all
        let mut b = B::new(&[2, 0]);
        let g1 = b.and(0, 1);
        let g2 = b.xor(0, 1);
        v.push(("no_input_party", b.out(&[g1, g2]), vec![vec![true, true], vec![]]));
    }
    {
        let mut b = B::new(&[1, 1, 1]);
        let g1 = b.and(0, 2); // parties 0,2
        let g2 = b.and(0, 1);
        let g3 = b.xor(g2, 2);
        v.push(("three_party", b.out(&[g1, g3, g2]), vec![vec![true], vec![true], vec![true]]));
    }
    {
        // the corrupted party's input reaches an output through XOR gates only (an equivocating
        // evaluator can then make two garblers accept different values unless the broadcast is verified)
        let mut b = B::new(&[1, 1, 1]);
        let x = b.xor(0, 1);
        let y = b.xor(x, 2);
        let z = b.and(1, 2);
        v.push(("three_party_xor", b.out(&[y, z]), vec![vec![true], vec![false], vec![true]]));
    }
    v
}

/// S = { f(x_honest, x') : x' over all assignments of the corrupted party's inputs }, with x'.
fn allowed(case: &MpcCase, corrupted: usize) -> Vec<(Vec<bool>, Vec<bool>)> {
    let k = case.circ.inputs[corrupted];
    (0..(1u32 << k))
        .map(|m| {
            let xp: Vec<bool> = (0..k).map(|i| (m >> i) & 1 == 1).collect();
            let mut inp = case.inputs.clone();
            inp[corrupted] = xp.clone();
            (xp, case.circ.eval(&inp))
        })
        .collect()
}

/// Err(description) if the honest outcomes are not explained by Err / one common substitution.
fn judge(case: &MpcCase, corrupted: usize, outcomes: &[(String, String)]) -> Result<bool, (String, String)> {
    let s = allowed(case, corrupted);
    let n = case.n();
    let mut oks: Vec<(usize, String)> = vec![];
    for p in (0..n).filter(|p| *p != corrupted) {
        match outcomes[p].0.as_str() {
            "Ok" => {
                if case.p_out.contains(&p) {
                    oks.push((p, outcomes[p].1.clone()));
                } else if !outcomes[p].1.is_empty() {
                    return Err(("non_output_party_got_bits".into(), format!("party {p} returned {}", outcomes[p].1)));
                }
            }
            "Err" => {}
            "Panic" => return Err(("panic".into(), format!("party {p} panicked: {}", outcomes[p].1))),
            _ => return Err(("hang".into(), format!("party {p} never returned"))),
        }
    }
    if oks.is_empty() {
        return Ok(false);
    }
    for (p, v) in &oks {
        if !s.iter().any(|(_, o)| crate::util::bits(o) == *v) {
            return Err(("wrong_output_accepted".into(), format!("party {p} returned Ok({v}), which is not f(x_honest, x') for any x' (allowed: {:?})", s.iter().map(|(_, o)| crate::util::bits(o)).collect::<Vec<_>>())));
        }
    }
    let common = s.iter().any(|(_, o)| oks.iter().all(|(_, v)| crate::util::bits(o) == *v));
    if !common {
        return Err(("honest_parties_disagree".into(), format!("honest parties accepted values explained by different substitutions: {oks:?}")));
    }
    Ok(true)
}

pub fn configs(tier: Tier, seed: u64) -> Result<Vec<Config>, String> {
    let mut v = vec![];
    for (ci, (name, c, inputs)) in circuits().into_iter().enumerate() {
        let n = c.n();
        let roles: Vec<(usize, usize)> = if n == 2 { vec![(1, 0), (0, 0), (1, 1), (0, 1)] } else if tier.is_thorough() { vec![(1, 0), (0, 0), (2, 1)] } else { vec![(1, 0), (0, 0)] };
        for (corrupted, p_eval) in roles {
            if name == "no_input_party" && corrupted == 0 {
                continue;
            }
            if name == "three_party_xor" && corrupted != 0 && !tier.is_thorough() {
                continue;
            }
            if !tier.is_thorough() && n == 2 && ci >= 1 && p_eval == 1 {
                continue;
            }
            let case = MpcCase { inputs: inputs.clone(), circ: c.clone(), p_eval, p_out: (0..n).collect(), tmp_mask: 0 };
            let mut cfg = make_config(case, corrupted, tape_seed(seed, (ci * 1000 + corrupted * 10 + p_eval) as u64), false)?;
            cfg.name = format!("{name}/{}", cfg.name);
            v.push(cfg);
        }
    }
    Ok(v)
}

fn flip_all() -> crate::hooks::TapFn {
    Arc::new(|h: &mut Hook<'_>| match h {
        Hook::Bools(b) => b.iter_mut().take(1).for_each(|x| *x = !*x),
        Hook::BoolVecs(v) => {
            if let Some(x) = v.iter_mut().find(|x| !x.is_empty()) {
                x[0] = !x[0]
            }
        }
        _ => {}
    })
}

pub fn main(tier: Tier, seed: u64) -> i32 {
    let mut rep = Report::new("C02", tier, seed, "fault_enumeration");
    if let Err(e) = super::selftest::determinism(seed) {
        rep.machinery(e);
        return rep.finish();
    }
    let cfgs = match configs(tier, seed) {
        Ok(c) => c,
        Err(e) => {
            rep.machinery(e);
            return rep.finish();
        }
    };
    let cap = if tier.is_thorough() { 8 } else { 3 };
    let cases: Vec<FCase> = match gen_cases(&cfgs, cap, tier.is_thorough(), &|_| true, true) {
        Ok(c) => c,
        Err(e) => {
            rep.machinery(e);
            return rep.finish();
        }
    };
    // quick: reduced menu (bit flips, omissions, empty vectors, paired); thorough: everything
    let cases: Vec<FCase> = cases
        .into_iter()
        .filter(|c| {
            tier.is_thorough()
                || matches!(c.muts[0].node, Some(NodeMut::FlipBool) | Some(NodeMut::XorLow) | Some(NodeMut::SomeToNone) | Some(NodeMut::VecEmpty) | Some(NodeMut::NoneToSomeDefault) | Some(NodeMut::XorByte(0)))
        })
        .collect();
    // pairs of lies inside one message (two deviations that could cancel in an accumulated check)
    let mut cases = cases;
    match crate::campaign::gen_pair_cases(&cfgs, &["dvalue", "faand", "wire shares", "output wire shares"], 6) {
        Ok(p) => cases.extend(p),
        Err(e) => rep.machinery(e),
    }
    // scripted chains: an equivocating evaluator (n >= 3) announces a different masked input to one
    // garbler and fixes up the value it later reveals to that garbler
    let mut cases = cases;
    {
        use crate::schema::{Val, apply, decode_msg, encode_vec, msg_type};
        for (ci, cfg) in cfgs.iter().enumerate() {
            if cfg.case.n() < 3 || cfg.corrupted != cfg.case.p_eval {
                continue;
            }
            for q in (0..cfg.case.n()).filter(|q| *q != cfg.corrupted) {
                let find = |label: &str| cfg.honest.msgs.iter().position(|m| m.from == cfg.corrupted && m.to == q && m.label == label);
                let (Some(mi), Some(li)) = (find("masked inputs"), find("lambda")) else { continue };
                let (Ok(mv), Ok(lv)) = (decode_msg("masked inputs", &cfg.honest.msgs[mi].bytes), decode_msg("lambda", &cfg.honest.msgs[li].bytes)) else { continue };
                let (Val::Vec(mitems), Val::Vec(litems)) = (&mv, &lv) else { continue };
                let in_wires: Vec<usize> = mitems.iter().enumerate().filter(|(_, v)| matches!(v, Val::Opt(Some(_)))).map(|(w, _)| w).collect();
                let out_wires: Vec<usize> = litems.iter().enumerate().filter(|(_, v)| matches!(v, Val::Opt(Some(_)))).map(|(w, _)| w).collect();
                // every non-empty subset of output wires gets its revealed value flipped
                for w in &in_wires {
                    for mask in 1u32..(1 << out_wires.len().min(4)) {
                        let mut m2 = mv.clone();
                        let mut l2 = lv.clone();
                        let mut ok = apply(&msg_type("masked inputs").unwrap(), &mut m2, &[*w, 0], &NodeMut::FlipBool);
                        for (k, ow) in out_wires.iter().enumerate().take(4) {
                            if (mask >> k) & 1 == 1 {
                                ok &= apply(&msg_type("lambda").unwrap(), &mut l2, &[*ow, 0, 0], &NodeMut::FlipBool);
                            }
                        }
                        if !ok {
                            continue;
                        }
                        let mk = |detail: String, bytes: Vec<u8>, dynamic: Option<crate::exec::MutFn>| crate::adv::MsgMut { class: "struct:chain".into(), detail, bytes: std::sync::Arc::new(bytes), malformed: false, path: Some(vec![*w, 0]), node: Some(NodeMut::FlipBool), dynamic };
                        // the second fault acts on the bytes actually sent (they differ from the honest run after the first fault)
                        let flips: Vec<usize> = out_wires.iter().enumerate().take(4).filter(|(k, _)| (mask >> k) & 1 == 1).map(|(_, ow)| *ow).collect();
                        let dynf: crate::exec::MutFn = std::sync::Arc::new(move |bytes: &[u8]| {
                            let ty = msg_type("lambda")?;
                            let mut v = crate::schema::decode(bytes, &ty).ok()?;
                            for ow in &flips {
                                apply(&ty, &mut v, &[*ow, 0, 0], &NodeMut::FlipBool);
                            }
                            Some(encode_vec(&v))
                        });
                        cases.push(FCase {
                            cfg: ci,
                            msgs: vec![mi, li],
                            muts: vec![mk(format!("masked input of wire {w} flipped towards {q}"), encode_vec(&m2), None), mk(format!("revealed values of output wires (subset {mask:#b}) flipped towards {q}"), encode_vec(&l2), Some(dynf))],
                            label: "masked inputs+lambda".into(),
                            field: "masked inputs+lambda[chain]".into(),
                            rule: Rule::Always,
                            to_all: false,
                            desc: format!("{}: evaluator tells party {q} a flipped masked input for wire {w} and flips the revealed values of output-wire subset {mask:#b} towards {q}", cfg.name),
                        });
                    }
                }
            }
        }
    }
    // thorough: all pairs of faults of the reduced menu in two different online-phase messages (n = 2)
    if tier.is_thorough() {
        let online: Vec<FCase> = cases
            .iter()
            .filter(|c| cfgs[c.cfg].case.n() == 2 && c.msgs.len() == 1 && crate::campaign::is_online(&c.label) && matches!(c.muts[0].node, Some(NodeMut::FlipBool) | Some(NodeMut::XorLow) | Some(NodeMut::SomeToNone)))
            .cloned()
            .collect();
        let mut pairs = vec![];
        for a in 0..online.len() {
            for b in 0..online.len() {
                let (x, y) = (&online[a], &online[b]);
                if x.cfg == y.cfg && x.msgs[0] < y.msgs[0] {
                    // the second fault is applied to the bytes actually sent
                    let (path, node) = (y.muts[0].path.clone().unwrap_or_default(), y.muts[0].node.clone().unwrap());
                    let label = y.label.clone();
                    let dynf: crate::exec::MutFn = std::sync::Arc::new(move |bytes: &[u8]| {
                        let ty = crate::schema::msg_type(&label)?;
                        let mut v = crate::schema::decode(bytes, &ty).ok()?;
                        crate::schema::apply(&ty, &mut v, &path, &node);
                        Some(crate::schema::encode_vec(&v))
                    });
                    let mut m2 = y.muts[0].clone();
                    m2.dynamic = Some(dynf);
                    pairs.push(FCase {
                        cfg: x.cfg,
                        msgs: vec![x.msgs[0], y.msgs[0]],
                        muts: vec![x.muts[0].clone(), m2],
                        label: format!("{}+{}", x.label, y.label),
                        field: format!("{}+{}[chain]", x.label, y.label),
                        rule: Rule::Always,
                        to_all: false,
                        desc: format!("{} THEN {}", x.desc, y.desc),
                    });
                }
            }
        }
        rep.set("online_fault_pairs", json!(pairs.len()));
        cases.extend(pairs);
    }
    let results = par_map(&cases, |w, _, c| {
        let cfg = &cfgs[c.cfg];
        run_faults(cfg, faults_of(cfg, c), vec![], false, w).0
    });
    let mut accepted = 0u64;
    let mut aborted = 0u64;
    let mut distinct = std::collections::HashSet::new();
    for (c, r) in cases.iter().zip(results.iter()) {
        let cfg = &cfgs[c.cfg];
        rep.evaluations += 1;
        if r.identical {
            rep.add("trivial_no_effect", 1);
        } else {
            distinct.insert(format!("{}|{}|{}", cfg.name, crate::campaign::class_of(c), c.to_all));
        }
        match judge(&cfg.case, cfg.corrupted, &r.outcomes) {
            Ok(true) => accepted += 1,
            Ok(false) => aborted += 1,
            Err((class, d)) => {
                rep.violation(format!("{class}:{}", crate::campaign::class_of(c)), format!("{} -> {d}", c.desc), replay_json(cfg, c));
            }
        }
        if rep.samples.len() < 4 && rep.evaluations % 301 == 7 {
            rep.sample(json!({"fault": c.desc, "honest_outcomes": r.outcomes.iter().enumerate().filter(|(p, _)| *p != cfg.corrupted).map(|(p, o)| format!("p{p}: {} {}", o.0, o.1)).collect::<Vec<_>>(), "allowed_outputs": allowed(&cfg.case, cfg.corrupted).iter().map(|(_, o)| crate::util::bits(o)).collect::<Vec<_>>()}));
        }
        let _ = Rule::Always;
    }
    // tap-based consistent lies
    let mut tap_cases = vec![];
    for ci in 0..cfgs.len() {
        for (name, occs) in [("dvalue_bits", 1usize), ("beaver_de", 1), ("garble_r", 3)] {
            for occ in 0..occs {
                tap_cases.push((ci, name, occ));
            }
        }
        // two consistent lies in one bucket / one opening (occurrence 100+k = pair variant k)
        for k in 0..3usize {
            tap_cases.push((ci, "dvalue_bits", 100 + k));
            tap_cases.push((ci, "beaver_de", 100 + k));
        }
    }
    let tap_res = par_map(&tap_cases, |w, _, (ci, name, occ)| {
        let cfg = &cfgs[*ci];
        if *occ >= 100 {
            let k = *occ - 100;
            let f: crate::hooks::TapFn = Arc::new(move |h: &mut Hook<'_>| match h {
                Hook::BoolVecs(v) => {
                    // two d-values of bucket k (or of the first non-trivial bucket)
                    let idx = if k < v.len() && v[k].len() >= 2 { k } else { 0 };
                    if let Some(x) = v.get_mut(idx)
                        && x.len() >= 2
                    {
                        x[0] = !x[0];
                        let l = x.len() - 1;
                        x[l] = !x[l];
                    }
                }
                Hook::Bools(b) if b.len() >= 2 * k + 2 => {
                    // d and e of opening k
                    b[2 * k] = !b[2 * k];
                    b[2 * k + 1] = !b[2 * k + 1];
                }
                _ => {}
            });
            return run_faults(cfg, vec![], vec![TapSpec { party: cfg.corrupted, name: name.to_string(), occ: Some(0), f }], false, w).0;
        }
        run_faults(cfg, vec![], vec![TapSpec { party: cfg.corrupted, name: name.to_string(), occ: Some(*occ), f: flip_all() }], false, w).0
    });
    for ((ci, name, occ), r) in tap_cases.iter().zip(tap_res.iter()) {
        let cfg = &cfgs[*ci];
        rep.evaluations += 1;
        match judge(&cfg.case, cfg.corrupted, &r.outcomes) {
            Ok(true) => accepted += 1,
            Ok(false) => aborted += 1,
            Err((class, d)) => rep.violation(format!("{class}:tap:{name}"), format!("{}: tap {name}#{occ} -> {d}", cfg.name), json!({"kind":"tap","case":cfg.case,"corrupted":cfg.corrupted,"seed":cfg.seed,"tap":name,"occ":occ})),
        }
        if !r.identical {
            distinct.insert(format!("{}|tap:{name}|{occ}", cfg.name));
        }
    }
    rep.distinct_nontrivial = distinct.len() as u64;
    rep.exhaustive = Some(true);
    rep.set("runs_ending_in_abort", json!(aborted));
    rep.set("runs_accepted_with_allowed_output", json!(accepted));
    rep.set("configurations", json!(cfgs.iter().map(|c| c.name.clone()).collect::<Vec<_>>()));
    rep.rule = "every message of the corrupted party (all phases) x every structure-aware single alteration incl. omissions and empty vectors (quick: bit flips / low-bit xor / Some<->None / empty; thorough: full menu) x recipient patterns, plus consistent lies through taps (own d-value, Beaver opening, garbled share bit); oracle: each honest output party returns Err or a value in S = {f(x_honest, x')}, all accepted values explained by one x'. distinct = (configuration, label/field/mutation, recipients) with an observable effect; trivial = run identical to the honest one".into();
    rep.assumptions = vec!["single corrupted party, fault sequences of length 1 (+ taps)".into()];
    rep.finish()
}
