//! C13 - server core: compatible policies always run to exactly one correct result each.

use std::collections::HashMap;

use polytune::garble_lang::literal::Literal;
use serde_json::json;

use crate::srv::{Ev, MsgPolicy, PolicySpec, Snapshot, comp_id, make_policies};
use crate::srvx::{SrvSpace, explore};
use crate::util::{Budget, Report, Tier, par_map};

pub fn lit(b: bool) -> Literal {
    if b { Literal::True } else { Literal::False }
}

/// Program over `n` bool inputs xor-ed together, with one bool-valued constant per party in `consts`.
pub fn spec(n: usize, leader: usize, consts_from: &[usize], outputs: Vec<bool>) -> (PolicySpec, bool) {
    let names = ["a", "b", "c", "d"];
    let mut prg = String::new();
    for p in consts_from {
        prg += &format!("const K{p}: usize = PARTY_{p}::K;\n");
    }
    let params: Vec<String> = (0..n).map(|p| format!("{}: bool", names[p])).collect();
    let mut body: Vec<String> = (0..n).map(|p| names[p].to_string()).collect();
    for p in consts_from {
        body.push(format!("(K{p} == 1usize)"));
    }
    prg += &format!("pub fn main({}) -> bool {{ {} }}\n", params.join(", "), body.join(" ^ "));
    let inputs: Vec<bool> = (0..n).map(|p| p % 2 == 0).collect();
    let mut expected = inputs.iter().fold(false, |a, b| a ^ b);
    let mut constants = vec![HashMap::new(); n];
    for p in consts_from {
        // party p supplies K = 1 if p is even, else 0
        let v = if p % 2 == 0 { 1u64 } else { 0 };
        constants[*p].insert("K".to_string(), Literal::NumUnsigned(v, polytune::garble_lang::token::UnsignedNumType::Usize));
        expected ^= v == 1;
    }
    (PolicySpec { program: prg, inputs: inputs.into_iter().map(lit).collect(), constants, leader, outputs }, expected)
}

pub fn coordination_only(_h: &[Ev], e: &Ev) -> bool {
    matches!(e, Ev::Schedule { .. } | Ev::Deliver(_) | Ev::Reply(_) | Ev::CompileDone { .. })
}

/// End-of-history oracle.
pub fn oracle(snap: &Snapshot, n: usize, outputs: &[bool], expected: bool, concurrency: usize) -> Result<(), (String, String)> {
    let exp = format!("{}", lit(expected));
    for p in 0..n {
        let sched: Vec<_> = snap.calls.iter().filter(|c| c.what == "schedule" && c.party as usize == p).collect();
        match sched.as_slice() {
            [c] => {
                if let Err(e) = &c.result {
                    return Err(("schedule_failed".into(), format!("schedule of party {p} returned {e}")));
                }
            }
            [] => return Err(("schedule_never_returned".into(), format!("schedule call of party {p} never returned"))),
            _ => return Err(("schedule_twice".into(), "more than one schedule result".into())),
        }
        let outs: Vec<_> = snap.outputs.iter().filter(|o| o.party as usize == p).collect();
        if outputs[p] {
            match outs.as_slice() {
                [o] => match &o.result {
                    Ok(v) if *v == exp => {}
                    Ok(v) => return Err(("wrong_result".into(), format!("party {p} was sent {v}, expected {exp}"))),
                    Err(e) => return Err(("error_result".into(), format!("party {p} was sent error {e}"))),
                },
                [] => return Err(("no_result".into(), format!("party {p} named an output destination but received nothing"))),
                _ => return Err(("several_results".into(), format!("party {p} received {} results", outs.len()))),
            }
        } else if !outs.is_empty() {
            return Err(("unexpected_result".into(), format!("party {p} has no output destination but output() was called")));
        }
    }
    if let Some((_, p, _)) = snap.actors_finished.iter().find(|a| a.2) {
        return Err(("actor_panicked".into(), format!("state machine of party {p} panicked")));
    }
    if !snap.actors_alive.is_empty() {
        return Err(("actor_not_stopped".into(), format!("state machines still alive at the end: {:?}; pending rpcs {:?}", snap.actors_alive, snap.pending_rpcs)));
    }
    for (p, permits) in snap.permits.iter().enumerate() {
        if *permits != concurrency {
            return Err(("permit_leaked".into(), format!("party {p} has {permits} of {concurrency} permits available at the end")));
        }
    }
    if !snap.pending_rpcs.is_empty() {
        return Err(("rpc_unanswered".into(), format!("{:?}", snap.pending_rpcs)));
    }
    Ok(())
}

pub fn main(tier: Tier, seed: u64) -> i32 {
    let mut rep = Report::new("C13", tier, seed, "model_checking");
    if let Err(e) = crate::srvx::selftest(seed) {
        rep.machinery(e);
        return rep.finish();
    }
    let budget = Budget::new(if tier.is_thorough() { 1500.0 } else { 50.0 });
    // (n, leader, constants from, outputs)
    let mut plan: Vec<(usize, usize, Vec<usize>, Vec<bool>)> = vec![];
    for leader in 0..2 {
        for consts in [vec![], vec![0], vec![1], vec![0, 1]] {
            for outs in [vec![true, true], vec![leader == 1, leader == 0]] {
                plan.push((2, leader, consts.clone(), outs));
            }
        }
    }
    if tier.is_thorough() {
        for leader in 0..3 {
            for consts in [vec![], vec![1], vec![(leader + 1) % 3, (leader + 2) % 3]] {
                plan.push((3, leader, consts, vec![true, leader == 0, true]));
            }
        }
        plan.push((3, 0, vec![1], vec![true, true, false]));
        plan.push((3, 2, vec![0, 2], vec![false, true, true]));
    } else {
        plan.push((3, 1, vec![], vec![true, false, true]));
    }
    let mut states = 0;
    let mut transitions = 0;
    let mut histories = 0u64;
    let mut configs = vec![];
    let mut all_done = true;
    let mut kinds: std::collections::BTreeSet<String> = Default::default();
    for (ci, (n, leader, consts, outs)) in plan.iter().enumerate() {
        if budget.exhausted() {
            all_done = false;
            configs.push(json!({"n": n, "leader": leader, "consts_from": consts, "skipped": "wall cap"}));
            continue;
        }
        let (sp, expected) = spec(*n, *leader, consts, outs.clone());
        let pols = vec![make_policies(&sp, comp_id(seed, ci as u64))];
        let space = SrvSpace { n: *n, concurrency: 1, policies: pols, seed: crate::exec::mix(seed, 1300 + ci as u64), msg_policy: MsgPolicy::Eager };
        let ex = explore(&space, vec![], &coordination_only, &budget, if tier.is_thorough() { 200_000 } else { 6_000 }, true);
        for (_, s) in &ex.complete {
            for (_, _, k) in &s.state_kinds {
                kinds.insert(k.clone());
            }
        }
        states += ex.states;
        transitions += ex.transitions;
        if ex.capped {
            all_done = false;
        }
        for m in ex.machinery.iter().take(3) {
            rep.machinery(m.clone());
        }
        let leaves: Vec<_> = ex.complete.iter().filter(|(h, s)| s.enabled.iter().all(|e| !coordination_only(h, e))).collect();
        histories += leaves.len() as u64;
        for (h, snap) in leaves.iter().map(|x| (&x.0, &x.1)) {
            if let Err((class, d)) = oracle(snap, *n, outs, expected, 1) {
                rep.violation(class, format!("n={n} leader={leader} consts_from={consts:?} outputs={outs:?}: {d}; history {h:?}"), json!({"kind":"srv","n":n,"leader":leader,"consts_from":consts,"outputs":outs,"history":h}));
            }
        }
        if rep.samples.len() < 3 && !leaves.is_empty() {
            let (h, s) = leaves[leaves.len() / 2];
            rep.sample(json!({"n": n, "leader": leader, "consts_from": consts, "history": h.iter().map(|e| format!("{e:?}")).collect::<Vec<_>>(), "outputs": s.outputs.iter().map(|o| format!("party {} <- {:?}", o.party, o.result)).collect::<Vec<_>>(), "mpc_messages": s.msgs_delivered}));
        }
        configs.push(json!({"n": n, "leader": leader, "consts_from": consts, "outputs": outs, "states": ex.states, "transitions": ex.transitions, "complete_histories": leaves.len(), "max_depth": ex.max_depth, "cap_hit": ex.capped}));
    }
    // ---- n = 3 with constants: walks with one postponed event ---------------------------------------
    // The exhaustive enumeration for n = 3 with constants has 10^4..10^6 states (thorough tier, and
    // not for constants from all three parties).  Both tiers therefore also run, for every leader and
    // several constant layouts, the default-order walk, the reverse-preference walk and every walk in
    // which ONE coordination event is postponed until no other coordination event (or no event at
    // all) is enabled - e.g. a follower's constants reaching the other follower before the leader's
    // run request does.
    let mut wjobs: Vec<(usize, Vec<usize>, Vec<bool>, Option<(Ev, bool)>, bool)> = vec![];
    let mut wcfgs: Vec<(usize, Vec<usize>, Vec<bool>)> = vec![];
    for leader in 0..3usize {
        let f1 = (leader + 1) % 3;
        let f2 = (leader + 2) % 3;
        for consts in [vec![f1], vec![f1, f2], vec![leader, f2], vec![0, 1, 2]] {
            let mut consts = consts;
            consts.sort();
            if tier.is_thorough() || leader != 2 || consts.len() == 1 {
                wcfgs.push((leader, consts, vec![true, true, leader != 2]));
            }
        }
    }
    let wbases = par_map(&wcfgs, |_, i, (leader, consts, outs)| {
        let (sp, expected) = spec(3, *leader, consts, outs.clone());
        let pols = vec![make_policies(&sp, comp_id(seed, 900 + i as u64))];
        (crate::srv::run_walk(3, 1, pols.clone(), crate::srv::Walk { max_steps: 20_000, ..Default::default() }, MsgPolicy::Eager, crate::exec::mix(seed, 1390 + i as u64)), pols, expected)
    });
    for (i, (leader, consts, outs)) in wcfgs.iter().enumerate() {
        match &wbases[i].0 {
            Ok(b) => {
                wjobs.push((i, consts.clone(), outs.clone(), None, false));
                wjobs.push((i, consts.clone(), outs.clone(), None, true));
                let mut seen: Vec<Ev> = vec![];
                for e in b.history.iter().filter(|e| coordination_only(&[], e)) {
                    if !seen.contains(e) {
                        seen.push(e.clone());
                        wjobs.push((i, consts.clone(), outs.clone(), Some((e.clone(), false)), false));
                        wjobs.push((i, consts.clone(), outs.clone(), Some((e.clone(), true)), false));
                    }
                }
            }
            Err(e) => rep.machinery(format!("n=3 leader={leader} consts_from={consts:?}: base walk failed: {e}")),
        }
    }
    let wres = par_map(&wjobs, |_, _, (i, _, _, starve, reverse)| {
        let (base, pols, _) = &wbases[*i];
        let base = base.as_ref().map_err(|e| e.clone())?;
        let mut walk = crate::srv::Walk { max_steps: 20_000, prefer: base.history.clone(), ..Default::default() };
        if *reverse {
            walk.prefer = base.history.iter().rev().cloned().collect();
        }
        if let Some((e, past)) = starve {
            walk.prefer = vec![];
            walk.starve = vec![e.clone()];
            walk.starve_past_msgs = *past;
        }
        crate::srv::run_walk(3, 1, pols.clone(), walk, MsgPolicy::Eager, crate::exec::mix(seed, 1390 + *i as u64))
    });
    let mut walks = 0u64;
    for ((i, consts, outs, starve, reverse), r) in wjobs.iter().zip(wres.iter()) {
        let leader = wcfgs[*i].0;
        match r {
            Err(e) => rep.machinery(format!("n=3 walk failed: {e}")),
            Ok(r) => {
                walks += 1;
                if let Err((class, d)) = oracle(&r.snapshot, 3, outs, wbases[*i].2, 1) {
                    rep.violation(format!("{class}:walk"), format!("n=3 leader={leader} consts_from={consts:?} outputs={outs:?}, {}: {d}", match starve { Some((e, past)) => format!("{e:?} postponed{}", if *past { " past the MPC messages" } else { "" }), None => if *reverse { "reverse preference".to_string() } else { "default order".to_string() } }), json!({"kind":"srv","n":3,"leader":leader,"consts_from":consts,"outputs":outs,"history":r.history}));
                }
            }
        }
    }
    rep.set("n3_walks_with_one_postponed_event", json!({"configurations": wcfgs.len(), "walks": walks}));
    rep.evaluations = histories + walks;
    rep.distinct_nontrivial = histories + walks;
    rep.set("states", json!(states));
    rep.set("transitions", json!(transitions));
    rep.set("traces_validated_against_impl", json!(states));
    rep.set("configurations", json!(configs));
    rep.set("state_kinds_observed", json!(kinds));
    rep.exhaustive = Some(all_done);
    rep.rule = "per configuration (n, leader, which parties supply constants, which parties name an output destination): breadth-first enumeration of all event histories over {inject schedule_p, deliver / answer each validate, run and consts RPC, compile completion of p} on the real PolicyState actors (current-thread tokio, paused clock, owned transport); MPC messages are delivered FIFO per pair whenever pending; histories with equal per-process projections are merged (Mazurkiewicz canonical form); states = canonical histories executed, every one of them is an execution of the implementation; in addition, for n=3 with constants: default, reverse and every single-postponed-event walk".into();
    rep.assumptions = vec![
        "RPC transport = the crate's own PolicyClient seam; a process creates an actor on the first schedule/validate for an id and answers run/consts/msg for unknown ids with an error, like polytune-http-server".into(),
        "MPC messages are not interleaved exhaustively with coordination events (eager FIFO delivery; C14/C15 add explicit placements)".into(),
    ];
    rep.finish()
}

/// Debug helper: follows the first enabled event until nothing is enabled, printing each step.
pub fn debug_walk(seed: u64) -> i32 {
    let (sp, expected) = spec(2, 0, &[], vec![true, true]);
    let pols = vec![make_policies(&sp, comp_id(seed, 99))];
    let mut h: Vec<Ev> = vec![];
    for step in 0..40 {
        let t = std::time::Instant::now();
        let r = crate::srv::run_history(2, 1, pols.clone(), h.clone(), MsgPolicy::Eager, seed, false);
        match r {
            Err(e) => {
                println!("step {step}: ERR {e}");
                return 2;
            }
            Ok(s) => {
                println!("step {step} ({:.0} ms): enabled={:?} outputs={:?} calls={:?} alive={:?} msgs={} pending={:?}", t.elapsed().as_secs_f64() * 1e3, s.enabled, s.outputs.iter().map(|o| (o.party, o.result.clone())).collect::<Vec<_>>(), s.calls.iter().map(|c| (c.what.clone(), c.party, c.result.is_ok())).collect::<Vec<_>>(), s.actors_alive, s.msgs_delivered, s.pending_rpcs.len());
                let next = s.enabled.iter().find(|e| coordination_only(&h, e)).cloned();
                match next {
                    Some(e) => h.push(e),
                    None => {
                        println!("oracle: {:?}", oracle(&s, 2, &[true, true], expected, 1));
                        return 0;
                    }
                }
            }
        }
    }
    0
}
