//! C12 - result independent of scheduling; no deadlock on 1-slot channels (tier 1: real code).

use serde_json::json;

use crate::circuits::B;
use crate::exec::{ExecCfg, Outcome, RunResult, mix};
use crate::explore::{Dev, Explorer, Stats};
use crate::monitors::commit_before_reveal;
use crate::mpcrun::{MpcCase, check_honest, mpc_body};
use crate::skel;
use crate::util::{Budget, Report, Tier};

pub fn cases_for(n: usize, p_eval: usize) -> MpcCase {
    match n {
        2 => {
            let mut b = B::new(&[1, 1]);
            let a = b.and(0, 1);
            let c = b.not(a);
            let d = b.and(c, 0);
            MpcCase { circ: b.out(&[d, a]), inputs: vec![vec![true], vec![true]], p_eval, p_out: vec![0, 1], tmp_mask: 0 }
        }
        3 => {
            let mut b = B::new(&[1, 1, 1]);
            let a = b.and(0, 1);
            let c = b.xor(a, 2);
            MpcCase { circ: b.out(&[c]), inputs: vec![vec![true], vec![true], vec![true]], p_eval, p_out: vec![0, 2], tmp_mask: 0 }
        }
        _ => {
            let lay = vec![1usize; n];
            let mut b = B::new(&lay);
            let mut x = 0;
            for p in 1..n as u32 {
                x = b.xor(x, p);
            }
            let y = b.not(x);
            MpcCase { circ: b.out(&[y]), inputs: (0..n).map(|p| vec![p % 2 == 0]).collect(), p_eval, p_out: vec![0, n - 1], tmp_mask: 0 }
        }
    }
}

pub struct ConfigResult {
    pub name: String,
    pub bound: u32,
    pub schedules: u64,
    pub states: u64,
    pub transitions: u64,
    pub choice_points: u64,
    pub pruned: u64,
    pub max_enabled: u64,
    pub distinct_histories: u64,
    pub capped: bool,
    pub failures: Vec<(Vec<Dev>, String)>,
}

pub fn oracle(case: &MpcCase, r: &RunResult<Vec<bool>>) -> Result<(), String> {
    check_honest(case, r)?;
    if r.max_outstanding > 1 {
        return Err(format!("{} operations outstanding towards one peer in one direction", r.max_outstanding));
    }
    let honest: Vec<usize> = (0..case.n()).collect();
    commit_before_reveal(&r.ops, case.n(), &honest).map(|_| ())?;
    for (p, o) in r.outcomes.iter().enumerate() {
        if !matches!(o, Outcome::Ok(_)) {
            return Err(format!("party {p}: {o:?}"));
        }
    }
    Ok(())
}

pub fn explore_config(case: &MpcCase, cap: Option<usize>, bound: u32, seed: u64, budget: &Budget) -> ConfigResult {
    explore_config_with(case, cap, bound, seed, budget, &|r| oracle(case, r))
}

thread_local! {
    /// whether the next exploration started from this thread also enumerates spurious polls
    pub static SPURIOUS: std::cell::Cell<bool> = const { std::cell::Cell::new(false) };
}

pub fn explore_config_with(case: &MpcCase, cap: Option<usize>, bound: u32, seed: u64, budget: &Budget, check: &(dyn Fn(&RunResult<Vec<bool>>) -> Result<(), String> + Sync)) -> ConfigResult {
    let cfg = ExecCfg::new(case.n(), seed).cap(cap);
    let ex = Explorer {
        cfg,
        body: mpc_body(case, 700),
        bound,
        visited: Default::default(),
        stats: Stats::default(),
        check,
        failures: Default::default(),
        final_hists: Default::default(),
        budget,
        capped: Default::default(),
        max_failures: 20,
        spurious: SPURIOUS.with(|s| s.get()),
    };
    ex.explore();
    use std::sync::atomic::Ordering::Relaxed;
    ConfigResult {
        name: format!("n{}/e{}/cap{}", case.n(), case.p_eval, cap.map(|c| c.to_string()).unwrap_or("inf".into())),
        bound,
        schedules: ex.stats.schedules.load(Relaxed),
        states: ex.visited.lock().unwrap().len() as u64,
        transitions: ex.stats.transitions.load(Relaxed),
        choice_points: ex.stats.choice_points.load(Relaxed),
        pruned: ex.stats.pruned_points.load(Relaxed),
        max_enabled: ex.stats.max_enabled.load(Relaxed),
        distinct_histories: ex.final_hists.lock().unwrap().len() as u64,
        capped: ex.capped.load(Relaxed),
        failures: std::mem::take(&mut *ex.failures.lock().unwrap()),
    }
}

pub fn main(tier: Tier, seed: u64) -> i32 {
    let mut rep = Report::new("C12", tier, seed, "model_checking");
    if let Err(e) = super::selftest::determinism(seed) {
        rep.machinery(e);
        return rep.finish();
    }
    // (n, p_eval, capacity, bound)
    let plan: Vec<(usize, usize, Option<usize>, u32)> = if tier.is_thorough() {
        vec![
            // bound + 100 = spurious polls are part of the deviation alphabet
            (2, 0, Some(1), 3), (2, 1, Some(1), 102), (2, 0, Some(2), 102), (2, 0, None, 2), (2, 1, None, 102),
            (3, 0, Some(1), 101), (3, 1, Some(1), 1), (3, 2, Some(1), 101), (3, 0, Some(2), 1), (3, 1, None, 101),
            (4, 0, Some(1), 1), (4, 3, None, 101),
            (3, 0, Some(1), 2),
        ]
    } else {
        vec![(2, 0, Some(1), 2), (2, 1, Some(1), 101), (2, 0, Some(2), 101), (2, 1, None, 101), (3, 1, Some(1), 1)]
    };
    let budget = Budget::new(if tier.is_thorough() { 1500.0 } else { 50.0 });
    let mut total_states = 0u64;
    let mut total_trans = 0u64;
    let mut total_sched = 0u64;
    let mut configs = vec![];
    let mut all_exhaustive = true;
    let mut skeletons: std::collections::HashMap<(usize, usize), skel::Skeleton> = Default::default();
    let mut model_states = 0u64;
    let mut conformance_words = 0u64;
    let mut conformance_paths = 0u64;
    let mut skeleton_reports = vec![];
    for (n, p_eval, cap, bound) in plan {
        let spurious = bound >= 100;
        let bound = bound % 100;
        SPURIOUS.with(|s| s.set(spurious));
        if budget.exhausted() {
            all_exhaustive = false;
            configs.push(json!({"config": format!("n{n}/e{p_eval}/cap{cap:?}"), "bound": bound, "skipped": "wall cap reached before this configuration"}));
            continue;
        }
        let case = cases_for(n, p_eval);
        // tier 2: skeleton of this public configuration (n <= 3), extracted once per (n, p_eval)
        let use_skel = n == 2 || (n == 3 && tier.is_thorough());
        if use_skel && !skeletons.contains_key(&(n, p_eval)) {
            match skel::extract(&case, None, mix(seed, 12)) {
                Ok(ex) => {
                    skeleton_reports.push(json!({"config": format!("n{n}/e{p_eval}"), "ops_per_party": ex.skel.ops.iter().map(|o| o.len()).collect::<Vec<_>>(), "starve_runs": ex.starve_runs,
                        "max_guard": ex.skel.ops.iter().flatten().map(|o| o.guard.len()).max()}));
                    total_sched += ex.starve_runs as u64;
                    skeletons.insert((n, p_eval), ex.skel);
                }
                Err(e) => rep.machinery(format!("skeleton extraction failed for n{n}/e{p_eval}: {e}")),
            }
        }
        let sk = skeletons.get(&(n, p_eval)).filter(|_| use_skel).map(|s| {
            let mut s = s.clone();
            s.capacity = cap;
            s
        });
        let rejected: std::sync::Mutex<Vec<String>> = Default::default();
        let accepted = std::sync::atomic::AtomicU64::new(0);
        let check = |r: &RunResult<Vec<bool>>| -> Result<(), String> {
            if let Some(sk) = &sk {
                match skel::accepts(sk, r) {
                    Ok(_) => {
                        accepted.fetch_add(1, std::sync::atomic::Ordering::Relaxed);
                    }
                    Err(e) => rejected.lock().unwrap().push(e),
                }
            }
            oracle(&case, r)
        };
        let r = explore_config_with(&case, cap, bound, mix(seed, 12), &budget, &check);
        conformance_words += accepted.load(std::sync::atomic::Ordering::Relaxed);
        if let Some(e) = rejected.lock().unwrap().first() {
            rep.machinery(format!("{}: the extracted skeleton rejects a real execution ({e}); tier 2 is not a sound abstraction here", r.name));
        }
        // the model itself: all interleavings at this capacity
        if let Some(sk) = &sk
            && cap.is_some()
        {
            let mr = skel::check_model(sk, if tier.is_thorough() { 600 } else { 20 });
            model_states += mr.states_bfs as u64;
            for v in &mr.violations {
                let class = if v.starts_with("no deadlock") { "skeleton_deadlock" } else { "skeleton_two_outstanding_ops" };
                rep.violation(format!("{class}:{}", r.name), format!("{} (all interleavings of the extracted skeleton): {v}", r.name), json!({"kind":"c12_model","case":case,"capacity":cap}));
            }
            if !mr.completed && !mr.timed_out {
                rep.machinery(format!("{}: the skeleton model never reaches completion (vacuous)", r.name));
            }
            if mr.states_bfs != mr.states_dfs && !mr.timed_out {
                rep.machinery(format!("{}: BFS and DFS disagree on the number of states ({} vs {})", r.name, mr.states_bfs, mr.states_dfs));
            }
            if mr.timed_out {
                all_exhaustive = false;
            }
            // binding model -> code: cover paths executed on the real engine
            let paths = skel::cover_paths(sk, 400_000, if tier.is_thorough() { 48 } else { 12 });
            let follow = crate::util::par_map(&paths, |_, _, p| skel::follow(&case, sk, mix(seed, 12), p));
            for (p, f) in paths.iter().zip(follow.iter()) {
                match f {
                    Ok(()) => conformance_paths += 1,
                    Err(e) => rep.violation(format!("model_path_not_followed:{}", r.name), format!("{}: model path of {} steps: {e}", r.name, p.len()), json!({"kind":"c12_model","case":case,"capacity":cap})),
                }
            }
            skeleton_reports.push(json!({"config": r.name, "model_states_bfs": mr.states_bfs, "model_states_dfs": mr.states_dfs, "max_depth": mr.max_depth, "timed_out": mr.timed_out, "cover_paths_followed_on_code": paths.len()}));
        }
        total_states += r.states;
        total_trans += r.transitions;
        total_sched += r.schedules;
        if r.capped {
            all_exhaustive = false;
        }
        if r.distinct_histories <= 1 && r.schedules > 1 {
            rep.machinery(format!("{}: exploration was vacuous (one observation history)", r.name));
        }
        configs.push(json!({
            "config": r.name, "spurious_polls": spurious, "bound_completed": if r.capped { r.bound.saturating_sub(1) } else { r.bound }, "bound_attempted": r.bound,
            "schedules": r.schedules, "states": r.states, "transitions": r.transitions, "choice_points": r.choice_points,
            "pruned_choice_points": r.pruned, "max_enabled": r.max_enabled, "distinct_observation_histories": r.distinct_histories, "cap_hit": r.capped
        }));
        for (devs, e) in &r.failures {
            let class = if e.contains("deadlock") {
                "deadlock"
            } else if e.contains("outstanding") {
                "two_outstanding_ops"
            } else if e.contains("issued the send of") || e.contains("without ever receiving") {
                "reveal_before_commit"
            } else {
                "wrong_result_or_error"
            };
            rep.violation(
                format!("{class}:{}", r.name),
                format!("{} schedule={:?}: {e}", r.name, devs),
                json!({"kind":"c12","case": case, "capacity": cap, "seed": mix(seed, 12), "deviations": devs}),
            );
        }
        if rep.samples.len() < 4 {
            rep.sample(json!({"config": r.name, "example_schedule": "default policy with deviations", "deviation_kinds": ["Swap(k): take k-th enabled action", "Starve(a): postpone a until nothing else is enabled", "Spurious(p): poll party p although it was not woken (in the configurations marked spurious_polls)"], "schedules": r.schedules}));
        }
    }
    // ---- shape sweep: the invariants on many configurations under a few global policies --------
    let mut shapes: Vec<(String, MpcCase)> = vec![];
    for (n, ands) in if tier.is_thorough() { vec![(2usize, 1001usize), (2, 2001), (2, 9001), (3, 1001), (3, 2001)] } else { vec![(2, 1001), (2, 2001), (3, 1001)] } {
        let c = crate::circuits::and_chain(n, ands);
        for p_eval in [0, n - 1] {
            shapes.push((format!("chain{ands}/n{n}/e{p_eval}"), MpcCase { inputs: c.inputs_from_mask(0b11), circ: c.clone(), p_eval, p_out: vec![0, n - 1], tmp_mask: 0b10 }));
        }
    }
    // more than 2^16 registers: every per-register message of the online phase exceeds any plausible
    // chunking threshold
    {
        let wide = 70_000usize;
        let mut b = B::new(&[wide, 1]);
        let x = b.xor(0, (wide - 1) as u32);
        let y = b.and(x, wide as u32);
        let c = b.out(&[y, x]);
        let mut inputs = vec![vec![false; wide], vec![true]];
        inputs[0][0] = true;
        for p_eval in [0usize, 1] {
            shapes.push((format!("wide{wide}/n2/e{p_eval}"), MpcCase { inputs: inputs.clone(), circ: c.clone(), p_eval, p_out: vec![0, 1], tmp_mask: 0 }));
        }
    }
    for n in [2usize, 3, 4] {
        for (name, c) in crate::circuits::feature_circuits(n).into_iter().take(if tier.is_thorough() { 8 } else if n == 4 { 1 } else { 3 }) {
            for p_eval in if n == 4 { vec![1] } else { (0..n).collect::<Vec<_>>() } {
                shapes.push((format!("{name}/n{n}/e{p_eval}"), MpcCase { inputs: c.inputs_from_mask(0b101), circ: c.clone(), p_eval, p_out: (0..n).collect(), tmp_mask: 0 }));
            }
        }
    }
    // role sweep on small circuits: every evaluator x every non-empty output set (n = 2, 3), a
    // selection for n = 4, and the same with a party that owns no input wire
    for n in [2usize, 3, 4] {
        let feats = crate::circuits::feature_circuits(n);
        let mut circs: Vec<(&str, crate::circuits::Circ)> = vec![feats[0].clone()];
        if let Some(z) = feats.iter().find(|(name, _)| name.contains("zero_input")) {
            circs.push(z.clone());
        }
        let p_outs: Vec<Vec<usize>> = if n <= 3 {
            (1u32..(1 << n)).map(|m| (0..n).filter(|p| m >> p & 1 == 1).collect()).collect()
        } else {
            vec![vec![0], vec![3], vec![1, 2], vec![0, 2, 3]]
        };
        for (name, c) in &circs {
            for p_eval in if n == 4 { vec![0usize, 2] } else { (0..n).collect::<Vec<_>>() } {
                for p_out in &p_outs {
                    shapes.push((format!("roles:{name}/n{n}/e{p_eval}/out{p_out:?}"), MpcCase { inputs: c.inputs_from_mask(0b110), circ: c.clone(), p_eval, p_out: p_out.clone(), tmp_mask: 0 }));
                }
            }
        }
    }
    let mut shape_runs: Vec<(usize, Option<usize>, u8)> = vec![];
    for si in 0..shapes.len() {
        for cap in [Some(1), Some(2), None] {
            for policy in 0..3u8 {
                // capacity 2 only for the small role-sweep circuits
                if cap == Some(2) && !shapes[si].0.starts_with("roles:") {
                    continue;
                }
                shape_runs.push((si, cap, policy));
            }
        }
    }
    let shape_res = crate::util::par_map(&shape_runs, |w, _, (si, cap, policy)| {
        let case = &shapes[*si].1;
        let cfg = ExecCfg::new(case.n(), mix(seed, 13)).cap(*cap);
        let r = crate::exec::run(
            &cfg,
            mpc_body(case, 710 + w),
            &mut |en, _| match policy {
                0 => 0,
                1 => en.len() - 1,
                _ => en.iter().position(|a| matches!(a, crate::exec::Action::Run(_))).unwrap_or(0),
            },
            false,
        );
        (oracle(case, &r), r.actions)
    });
    let mut shape_ok = 0u64;
    for ((si, cap, policy), (res, actions)) in shape_runs.iter().zip(shape_res.iter()) {
        total_sched += 1;
        total_trans += *actions as u64;
        match res {
            Ok(()) => shape_ok += 1,
            Err(e) => {
                let class = if e.contains("deadlock") { "deadlock" } else if e.contains("outstanding") { "two_outstanding_ops" } else if e.contains("issued the send of") { "reveal_before_commit" } else { "wrong_result_or_error" };
                rep.violation(format!("{class}:shape"), format!("{} cap={cap:?} policy={policy}: {e}", shapes[*si].0), json!({"kind":"c12_shape","case":shapes[*si].1,"capacity":cap,"policy":policy,"seed":mix(seed,13)}));
            }
        }
    }
    rep.set("shape_sweep", json!({"configurations": shapes.len(), "runs": shape_runs.len(), "ok": shape_ok, "policies": ["default", "always the last enabled action", "run a woken party before any delivery"]}));
    rep.evaluations = total_sched;
    rep.distinct_nontrivial = total_sched;
    rep.set("states", json!(total_states + model_states));
    rep.set("transitions", json!(total_trans));
    rep.set("traces_validated_against_impl", json!(conformance_words + conformance_paths));
    rep.set("skeleton", json!({"model_states": model_states, "real_executions_accepted_by_model": conformance_words, "model_paths_followed_by_code": conformance_paths, "details": skeleton_reports}));
    rep.set("configurations", json!(configs));
    rep.exhaustive = Some(all_exhaustive);
    rep.rule = "all schedules with <= bound deviations (swap / starve / spurious poll) from the default policy on the real engine, per (n, p_eval, capacity); states = distinct execution states (per-party observation-history hashes + queue lengths + woken/finished flags + starved set) at explored choice points; transitions = scheduler actions executed; every explored schedule is an execution of the implementation itself (traces_validated_against_impl = schedules)".into();
    rep.assumptions = vec![
        "per-pair FIFO reliable channels".into(),
        "spurious polls of an idle party are part of the deviation alphabet in the configurations marked spurious_polls".into(),
        "pruning: two executions with equal state key have equal futures under the memoryless default policy".into(),
    ];
    rep.finish()
}

/// Debug: skeleton extraction and model size for n=3.
pub fn skel_debug(seed: u64) -> i32 {
    let case = cases_for(3, 0);
    let t = std::time::Instant::now();
    match skel::extract(&case, Some(1), mix(seed, 12)) {
        Ok(ex) => {
            println!("extracted in {:.1}s: ops {:?}, starve runs {}", t.elapsed().as_secs_f64(), ex.skel.ops.iter().map(|o| o.len()).collect::<Vec<_>>(), ex.starve_runs);
            let mut sk = ex.skel.clone();
            for cap in [Some(1), Some(2)] {
                sk.capacity = cap;
                let t = std::time::Instant::now();
                let mr = skel::check_model(&sk, 300);
                println!("cap {cap:?}: bfs {} dfs {} depth {} violations {:?} completed {} timed_out {} in {:.1}s", mr.states_bfs, mr.states_dfs, mr.max_depth, mr.violations, mr.completed, mr.timed_out, t.elapsed().as_secs_f64());
            }
            0
        }
        Err(e) => {
            println!("extract failed: {e}");
            2
        }
    }
}
