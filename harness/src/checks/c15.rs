//! C15 - server core: cancel stops the run and notifies the output destination once.

use serde_json::json;

use super::c13::{coordination_only, spec};
use crate::srv::{Ev, MsgPolicy, Stray, Walk, comp_id, make_policies, run_walk};
use crate::srvx::{SrvSpace, explore};
use crate::util::{Budget, Report, Tier, par_map};

/// Commands sent right before the cancel where they are invalid for the party's state.
fn pre_menu(n: usize) -> Vec<Stray> {
    vec![Stray::Run, Stray::ScheduleSame, Stray::ValidateDup { wrong_hash: false }, Stray::Msg { from: n as u64, empty: false }]
}

pub fn main(tier: Tier, seed: u64) -> i32 {
    let mut rep = Report::new("C15", tier, seed, "model_checking");
    if let Err(e) = crate::srvx::selftest(seed) {
        rep.machinery(e);
        return rep.finish();
    }
    // configurations: (n, leader, consts_from, outputs)
    let mut cfgs: Vec<(usize, usize, Vec<usize>, Vec<bool>)> = vec![
        (2, 0, vec![], vec![true, true]),
        (2, 1, vec![0, 1], vec![true, true]),
        (2, 0, vec![1], vec![false, true]),
        (2, 0, vec![], vec![true, false]),
    ];
    cfgs.push((3, 1, vec![], vec![true, true, true]));
    if tier.is_thorough() {
        cfgs.push((3, 0, vec![2], vec![true, false, true]));
        cfgs.push((3, 2, vec![0, 1, 2], vec![true, true, false]));
    }
    let mut jobs = vec![];
    let mut bases: Vec<(usize, Vec<Vec<polytune_server_core::Policy>>, Vec<Ev>)> = vec![];
    let xbudget = Budget::new(if tier.is_thorough() { 1800.0 } else { 20.0 });
    let mut fail_keys: Vec<(usize, Vec<crate::srv::RpcKey>)> = vec![];
    let mut coord_states = 0u64;
    let mut coord_capped = false;
    for (ci, (n, leader, consts, outs)) in cfgs.iter().enumerate() {
        let (sp, _) = spec(*n, *leader, consts, outs.clone());
        let pols = vec![make_policies(&sp, comp_id(seed, 1500 + ci as u64))];
        // base history: default order with explicit MPC message events
        let base = match run_walk(*n, 1, pols.clone(), Walk { max_steps: 10_000, ..Default::default() }, MsgPolicy::Explicit, crate::exec::mix(seed, 1500 + ci as u64)) {
            Ok(b) => b,
            Err(e) => {
                rep.machinery(format!("base walk failed: {e}"));
                continue;
            }
        };
        let len = base.history.len();
        for party in 0..*n {
            // every position among coordination events; every position (thorough) or every 4th among MPC messages
            let first_msg = base.history.iter().position(|e| matches!(e, Ev::Msg { .. })).unwrap_or(len);
            for at in 0..=len {
                let dense = at <= first_msg + 6 || at + 6 >= len || tier.is_thorough() || at % 4 == 0;
                if dense {
                    // the destination answers at once, or only after the client has suspended once
                    for oy in 0..2u8 {
                        jobs.push((bases.len(), party, at, oy, 0u8));
                    }
                    // a command that is invalid for the party's state (and must be answered with an
                    // error, without effect) right before the cancel
                    let prefix = &base.history[..at.min(len)];
                    let own_sched = prefix.iter().any(|e| matches!(e, Ev::Schedule { party: p, .. } if *p as usize == party));
                    for (pi, pre) in pre_menu(*n).iter().enumerate() {
                        let invalid = match pre {
                            Stray::Run => super::c14::run_is_invalid(prefix, party, *leader),
                            Stray::ValidateDup { .. } => super::c14::validate_is_invalid(prefix, party, *leader),
                            // after the run has ended a schedule starts a new state machine: not a duplicate
                            Stray::ScheduleSame => own_sched && at <= first_msg,
                            _ => true,
                        };
                        if invalid && (at % 2 == 0 || tier.is_thorough()) {
                            jobs.push((bases.len(), party, at, 1, pi as u8 + 1));
                        }
                    }
                }
            }
        }
        // a coordination RPC of the party fails (transport error) and the cancel arrives right after:
        // the error notification and the cancel must not add up to two notifications
        {
            let keys: Vec<crate::srv::RpcKey> = base.history.iter().filter_map(|e| if let Ev::Deliver(k) = e { if k.kind != crate::srv::Kind::Msg { Some(*k) } else { None } } else { None }).collect();
            for (fi, key) in keys.iter().enumerate().take(50) {
                let pos = base.history.iter().position(|e| *e == Ev::Deliver(*key)).unwrap_or(0);
                // ... or the cancel is already waiting (the RPC is still pending) when the RPC fails
                for oy in 0..2u8 {
                    jobs.push((bases.len(), key.from as usize, pos, oy, 200 + fi as u8));
                }
                for d in 0..4usize {
                    for oy in 0..2u8 {
                        jobs.push((bases.len(), key.from as usize, pos + d, oy, 100 + fi as u8));
                    }
                }
            }
            fail_keys.push((bases.len(), keys));
        }
        bases.push((ci, pols.clone(), base.history.clone()));
        // every reachable coordination state (all orders of schedule calls and of validate / run /
        // constants deliveries and replies, up to commutation of independent events): cancel right
        // there, then continue in default order.  n=3 only in the thorough tier.
        if *n == 2 || tier.is_thorough() {
            let space = SrvSpace { n: *n, concurrency: 1, policies: pols.clone(), seed: crate::exec::mix(seed, 1500 + ci as u64), msg_policy: MsgPolicy::Eager };
            let ex = explore(&space, vec![], &coordination_only, &xbudget, if tier.is_thorough() { 200_000 } else { 3_000 }, true);
            if ex.capped {
                coord_capped = true;
            }
            for m in ex.machinery.iter().take(2) {
                rep.machinery(m.clone());
            }
            coord_states += ex.complete.len() as u64;
            for (h, _) in ex.complete.iter() {
                for party in 0..*n {
                    for oy in 0..2u8 {
                        jobs.push((bases.len(), party, h.len(), oy, 0u8));
                    }
                }
                bases.push((ci, pols.clone(), h.clone()));
            }
        }
    }
    let results = par_map(&jobs, |_, _, (bi, party, at, oy, pre)| {
        let (ci, pols, base) = &bases[*bi];
        let (n, _, _, _) = &cfgs[*ci];
        let mut injections = vec![];
        let mut fail_after_cancel = None;
        if *pre >= 200 {
            let key = fail_keys.iter().find(|f| f.0 == *bi).map(|f| f.1[*pre as usize - 200]).unwrap();
            fail_after_cancel = Some((*at, Ev::Fail(key)));
        } else if *pre >= 100 {
            let key = fail_keys.iter().find(|f| f.0 == *bi).map(|f| f.1[*pre as usize - 100]).unwrap();
            let pos = base.iter().position(|e| *e == Ev::Deliver(key)).unwrap_or(0);
            injections.push((pos, Ev::Fail(key)));
        } else if *pre > 0 {
            injections.push((*at, Ev::Stray { pol: 0, party: *party as u8, cmd: pre_menu(*n)[*pre as usize - 1].clone() }));
        }
        injections.push((*at, Ev::Cancel { pol: 0, party: *party as u8 }));
        injections.extend(fail_after_cancel);
        let walk = Walk { injections, prefer: base.clone(), max_steps: 10_000, output_yields: *oy, ..Default::default() };
        // the failed-RPC walks deliver MPC messages eagerly (they end in the coordination phase)
        run_walk(*n, 1, pols.clone(), walk, if *pre >= 100 { MsgPolicy::Eager } else { MsgPolicy::Explicit }, crate::exec::mix(seed, 1500 + *ci as u64))
    });
    let mut states = 0u64;
    let mut transitions = 0u64;
    let mut cancelled_ok = 0u64;
    let mut kinds: std::collections::BTreeMap<String, u64> = Default::default();
    for ((bi, party, at, oy, pre), r) in jobs.iter().zip(results.iter()) {
        let ci = &bases[*bi].0;
        let (n, leader, consts, outs) = &cfgs[*ci];
        let r = match r {
            Ok(r) => r,
            Err(e) => {
                rep.machinery(format!("walk failed: {e}"));
                continue;
            }
        };
        states += 1;
        transitions += r.history.len() as u64;
        rep.evaluations += 1;
        let snap = &r.snapshot;
        let desc = format!("n={n} leader={leader} consts_from={consts:?} outputs={outs:?}: cancel party {party} after event #{at}, output suspends {oy}x{}", if *pre >= 200 { format!(", while the party's coordination RPC #{} is pending, which then fails", *pre - 200) } else if *pre >= 100 { format!(", after the party's coordination RPC #{} failed", *pre - 100) } else if *pre > 0 { format!(", preceded by the invalid command {:?}", pre_menu(*n)[*pre as usize - 1]) } else { String::new() });
        let replay = json!({"kind":"srv15","n":n,"leader":leader,"consts_from":consts,"outputs":outs,"party":party,"at":at,"output_yields":oy,"history":r.history});
        let Some(c) = snap.calls.iter().find(|c| c.what == "cancel" && c.party as usize == *party) else {
            rep.violation("cancel_never_returned", desc.clone(), replay);
            continue;
        };
        if let Some((_, p, _)) = snap.actors_finished.iter().find(|a| a.2) {
            rep.violation("actor_panicked", format!("{desc}: state machine of party {p} panicked"), replay.clone());
        }
        match &c.result {
            Err(e) => {
                *kinds.entry(format!("Err({})", e.chars().take(24).collect::<String>())).or_insert(0) += 1;
                if !(e.contains("ClientNotAvailable") || e.contains("Client(") || e == "NoActor" || e.contains("StateMachineStopped")) {
                    rep.violation("cancel_unexpected_error", format!("{desc}: cancel returned {e}"), replay.clone());
                }
                // StateMachineStopped / NoActor: the run had already ended
            }
            Ok(()) => {
                cancelled_ok += 1;
                let outs_p: Vec<_> = snap.outputs.iter().filter(|o| o.party as usize == *party).collect();
                *kinds.entry(format!("Ok/{}", outs_p.iter().map(|o| match &o.result { Ok(_) => "result".to_string(), Err(e) => e.chars().take(12).collect() }).collect::<Vec<_>>().join("+"))).or_insert(0) += 1;
                // every state machine of this party that existed when cancel returned must have stopped
                // (a later schedule/validate for the same id legitimately creates a new one)
                if snap.actors.iter().any(|(_, p, created, finished)| *p as usize == *party && *created < c.seq && finished.is_none()) {
                    rep.violation("actor_alive_after_cancel", format!("{desc}: cancel returned Ok but the state machine is still running"), replay.clone());
                }
                // a party that had not been given its policy when cancel arrived (state machine created by
                // a peer's validate call, or not at all) knows no destination: nothing to notify, and a
                // later schedule call legitimately starts a new state machine
                let cancel_pos = r.history.iter().position(|e| matches!(e, Ev::Cancel { .. })).unwrap_or(0);
                let scheduled_before = r.history[..cancel_pos].iter().any(|e| matches!(e, Ev::Schedule { party: p, .. } if *p as usize == *party));
                if !scheduled_before {
                    *kinds.entry("Ok/not yet scheduled".into()).or_insert(0) += 1;
                } else if outs[*party] {
                    match outs_p.as_slice() {
                        [o] => {
                            let fine = match &o.result {
                                // after a failed RPC the party's one notification may be that error
                                Err(e) => e == "Cancelled" || (*pre >= 100 && (e.contains("Error") || e.contains("error"))),
                                Ok(_) => true,
                            };
                            if !fine {
                                rep.violation("wrong_notification", format!("{desc}: cancel returned Ok, the destination received {:?} instead of Cancelled or the result", o.result), replay.clone());
                            }
                            if o.seq > c.seq {
                                rep.violation("notification_after_cancel_returned", format!("{desc}: {:?} was sent after cancel had returned Ok", o.result), replay.clone());
                            }
                        }
                        [] => rep.violation("no_notification", format!("{desc}: cancel returned Ok but the output destination was never notified"), replay.clone()),
                        more => rep.violation("several_notifications", format!("{desc}: {} notifications: {:?}", more.len(), more.iter().map(|o| o.result.clone()).collect::<Vec<_>>()), replay.clone()),
                    }
                } else if !outs_p.is_empty() {
                    rep.violation("unexpected_notification", format!("{desc}: party without destination was notified"), replay.clone());
                }
                if snap.permits[*party] != 1 {
                    rep.violation("permit_not_returned", format!("{desc}: {} of 1 permits available after cancel", snap.permits[*party]), replay.clone());
                }
            }
        }
        if rep.samples.len() < 4 && (*at == 5 || *at == 9) && *party == 0 {
            rep.sample(json!({"case": desc, "cancel_result": format!("{:?}", c.result), "notifications": snap.outputs.iter().filter(|o| o.party as usize == *party).map(|o| format!("{:?}", o.result)).collect::<Vec<_>>(), "history_len": r.history.len()}));
        }
    }
    rep.distinct_nontrivial = cancelled_ok;
    rep.set("states", json!(states));
    rep.set("transitions", json!(transitions));
    rep.set("traces_validated_against_impl", json!(states));
    rep.set("cancel_outcomes", json!(kinds));
    rep.set("coordination_states_with_cancel", json!(coord_states));
    rep.set("coordination_exploration_capped", json!(coord_capped));
    rep.exhaustive = Some(!coord_capped);
    rep.rule = "per configuration (n, leader, constants, destinations): the default-order history with explicit MPC-message events is the base; cancel is injected for each party after every k-th event among coordination events, compile completions and (quick: every 4th, thorough: every) MPC message; the run is then continued until quiescence; at the base-history positions the cancel is also injected right after each single failed coordination RPC of the party, and preceded by one command that is invalid for the party's state (run / duplicate schedule / further validate / message from an unknown sender); in addition (n=2; n=3 in the thorough tier) cancel is injected for each party in every reachable coordination state, i.e. after every history of schedule / validate / run / constants / compile events up to commutation of independent events, as enumerated by the C13 explorer; each injection is run with a client whose output call completes at once and with one that suspends once before completing (a notification counts as sent when the call has completed). states = injected histories executed on the real actors; non-trivial = cancel returned Ok".into();
    rep.assumptions = vec![
        "current-thread runtime; the two orders 'spawned MPC task polled before/after notify_one' are both reached through the compile-gate choice point".into(),
        "a multi-threaded runtime is not explored".into(),
    ];
    rep.finish()
}
