use crate::util::Tier;

pub mod c01;
pub mod c02;
pub mod c03;
pub mod c04;
pub mod c05;
pub mod c06;
pub mod c07;
pub mod c08;
pub mod c09;
pub mod c10;
pub mod c11;
pub mod c12;
pub mod c13;
pub mod c14;
pub mod c15;
pub mod c16;
pub mod c17;
pub mod c18;
pub mod c19;
pub mod c20;
pub mod selftest;

pub fn dispatch(id: &str, tier: Tier, seed: u64, rest: &[String]) -> i32 {
    match id {
        "selftest" => selftest::main(),
        "C01" => c01::main(tier, seed),
        "C02" => c02::main(tier, seed),
        "C03" => c03::main(tier, seed),
        "C04" => c04::main(tier, seed),
        "C05" => c05::main(tier, seed),
        "C06" => c06::main(tier, seed),
        "C07" => c07::main(tier, seed),
        "C08" => c08::main(tier, seed, rest),
        "C09" => c09::main(tier, seed),
        "C12" => c12::main(tier, seed),
        "skeldbg" => c12::skel_debug(seed),
        "C20" => c20::main(tier, seed),
        "C19" => c19::main(tier, seed),
        "C13" => c13::main(tier, seed),
        "C14" => c14::main(tier, seed),
        "C15" => c15::main(tier, seed),
        "C16" => c16::main(tier, seed),
        "C17" => c17::main(tier, seed),
        "srvdbg" => c13::debug_walk(seed),
        "C18" => c18::main(tier, seed, rest),
        "C10" => c10::main(tier, seed),
        "C11" => c11::main(tier, seed),
        _ => {
            eprintln!("unknown check {id}");
            2
        }
    }
}
