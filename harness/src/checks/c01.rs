//! C01 - honest execution computes exactly the circuit, for every role assignment.

use serde_json::json;

use crate::circuits::{and_chain, enumerate_programs, feature_circuits, with_outputs};
use crate::mpcrun::{MpcCase, check_honest, nonempty_subsets, run_case};
use crate::util::{Budget, Report, Tier};

fn role_configs(n: usize, full_tmp: bool) -> Vec<(usize, Vec<usize>, u32)> {
    let mut v = vec![];
    let masks: Vec<u32> = if full_tmp && n <= 3 {
        (0..(1u32 << n)).collect()
    } else {
        let all = (1u32 << n) - 1;
        let alt = (0..n).filter(|p| p % 2 == 0).fold(0u32, |a, p| a | (1 << p));
        vec![0, all, alt]
    };
    for p_eval in 0..n {
        for p_out in nonempty_subsets(n) {
            for &m in &masks {
                v.push((p_eval, p_out.clone(), m));
            }
        }
    }
    v
}

pub fn main(tier: Tier, seed: u64) -> i32 {
    let mut rep = Report::new("C01", tier, seed, "exploration");
    if let Err(e) = super::selftest::determinism(seed) {
        rep.machinery(e);
        return rep.finish();
    }
    let budget = Budget::new(if tier.is_thorough() { 1500.0 } else { 90.0 });
    let mut cases: Vec<(String, MpcCase)> = vec![];

    // sweep 1: programs x inputs
    // (layout, K, full role product for k<=K_full, all three output templates for k<=K_tpl)
    let layouts: Vec<(Vec<usize>, usize, i32, i32)> = if tier.is_thorough() {
        vec![(vec![1, 1], 3, 1, 1), (vec![2, 1], 2, 0, 1), (vec![1, 0, 1], 2, 0, 1), (vec![1, 1, 1], 2, 0, 1)]
    } else {
        vec![(vec![1, 1], 2, 0, 1), (vec![2, 1], 1, 0, -1), (vec![1, 0, 1], 1, -1, -1), (vec![1, 1, 1], 1, -1, -1)]
    };
    let mut sweep1_k = vec![];
    for (layout, kmax, k_full, k_tpl) in &layouts {
        let n = layout.len();
        let roles_full = role_configs(n, true);
        let mut rr = 0usize;
        for k in 0..=*kmax {
            let progs = enumerate_programs(layout, k);
            sweep1_k.push(json!({"layout": layout, "k": k, "programs": progs.len()}));
            for prog in progs {
                rr += 1;
                let templates: Vec<usize> = if (k as i32) <= *k_tpl { vec![0, 1, 2] } else { vec![rr % 3] };
                for t in templates {
                    let c = with_outputs(&prog, t);
                    let role_list: Vec<(usize, Vec<usize>, u32)> = if (k as i32) <= *k_full {
                        roles_full.clone()
                    } else {
                        rr += 1;
                        vec![roles_full[(rr * 7 + 3) % roles_full.len()].clone()]
                    };
                    for (p_eval, p_out, m) in role_list {
                        for inputs in c.all_inputs() {
                            cases.push((
                                "programs".into(),
                                MpcCase {
                                    circ: c.clone(),
                                    inputs,
                                    p_eval,
                                    p_out: p_out.clone(),
                                    tmp_mask: m,
                                },
                            ));
                        }
                    }
                }
            }
        }
    }
    let sweep1 = cases.len();

    // sweep 2: roles on feature circuits
    for n in [2usize, 3, 4, 5] {
        let feats = feature_circuits(n);
        let complete = n <= 3 || (tier.is_thorough() && n == 4);
        let take = match (tier.is_thorough(), n) {
            (true, 2..=4) => feats.len(),
            (true, _) => 2,
            (false, 2) => 4,
            (false, 3) => 2,
            (false, 4) => 2,
            (false, _) => 1,
        };
        for (fi, (name, c)) in feats.iter().enumerate().take(take) {
            let roles: Vec<(usize, Vec<usize>, u32)> = if complete {
                role_configs(n, tier.is_thorough() || n == 2)
            } else {
                let mut v = vec![];
                let all = (1u32 << n) - 1;
                for p_eval in 0..n {
                    for p in 0..n {
                        v.push((p_eval, vec![p], if (p_eval + p) % 2 == 0 { 0 } else { all }));
                    }
                    v.push((p_eval, (0..n).collect(), 0b1010 & all));
                }
                v
            };
            let per_role = if n >= 5 && !tier.is_thorough() { 1 } else { 2 };
            for (ri, (p_eval, p_out, m)) in roles.into_iter().enumerate() {
                // input assignments rotate through all assignments of the circuit
                let all_in = c.all_inputs();
                for j in 0..per_role {
                    let inputs = all_in[(ri * 2 + j + fi) % all_in.len()].clone();
                    cases.push((
                        format!("roles:{name}"),
                        MpcCase {
                            circ: c.clone(),
                            inputs,
                            p_eval,
                            p_out: p_out.clone(),
                            tmp_mask: m,
                        },
                    ));
                }
            }
        }
    }
    let sweep2 = cases.len() - sweep1;

    // sweep 3: batch boundaries
    let sizes: Vec<(usize, usize)> = if tier.is_thorough() {
        let mut v = vec![];
        for n in [2usize, 3] {
            for s in [999usize, 1000, 1001, 2000, 2001, 9000, 9001] {
                v.push((n, s));
            }
        }
        v.push((2, 27_900));
        v
    } else {
        // 9001: first size at which the batch size scales with the circuit; 27 900: first size with bucket size 4 through mpc
        vec![(2, 999), (2, 1000), (2, 1001), (2, 2001), (2, 9001), (2, 27_900)]
    };
    for (n, s) in sizes {
        let c = and_chain(n, s);
        for p_eval in [0, n - 1] {
            if s > 9000 && p_eval != 0 && !tier.is_thorough() {
                continue;
            }
            let all = (1u32 << n) - 1;
            let inputs = c.inputs_from_mask(if p_eval == 0 { all as u64 } else { 0b01 });
            cases.push((
                format!("batch:{s}"),
                MpcCase {
                    circ: c.clone(),
                    inputs,
                    p_eval,
                    p_out: if p_eval == 0 { (0..n).collect() } else { vec![0] },
                    tmp_mask: if p_eval == 0 { 0b01 } else { all & 0b110 },
                },
            ));
        }
    }
    // a register file larger than 2^16 (every per-register message of the online phase is long)
    {
        let wide = 70_000usize;
        let mut b = crate::circuits::B::new(&[wide, 1]);
        let x = b.xor(0, (wide - 1) as u32);
        let y = b.and(x, wide as u32);
        let z = b.not(y);
        let c = b.out(&[z, x, 5]);
        for (k, p_eval) in [0usize, 1].into_iter().enumerate() {
            let mut inputs = vec![(0..wide).map(|i| (i + k) % 3 == 0).collect::<Vec<bool>>(), vec![true]];
            inputs[0][wide - 1] = k == 0;
            cases.push((format!("batch:wide{wide}"), MpcCase { circ: c.clone(), inputs, p_eval, p_out: vec![0, 1], tmp_mask: (k as u32) << 1 }));
        }
    }
    let sweep3 = cases.len() - sweep1 - sweep2;

    // run
    let stop = std::sync::atomic::AtomicBool::new(false);
    let results = crate::util::par_map_until(
        &cases,
        |w, i, (_, case)| {
            if budget.exhausted() {
                stop.store(true, std::sync::atomic::Ordering::Relaxed);
            }
            let r = run_case(case, crate::exec::mix(seed, i as u64), w);
            let verdict = check_honest(case, &r);
            let tmp_ok = (0..case.n()).all(|p| {
                (case.tmp_mask >> p) & 1 == 0 || crate::mpcrun::dir_is_empty(&crate::mpcrun::party_tmp_dir(w, p))
            });
            (verdict, tmp_ok, r.msgs.len())
        },
        &stop,
    );
    let mut done = 0u64;
    let mut sampled: std::collections::HashMap<String, u32> = Default::default();
    let mut distinct = std::collections::HashSet::new();
    let mut nontrivial_circuits: std::collections::HashMap<String, bool> = Default::default();
    for ((kind, case), res) in cases.iter().zip(results.iter()) {
        let Some((verdict, tmp_ok, msgs)) = res else { continue };
        done += 1;
        let key = case.show();
        // non-trivial: expected output is not constant over the circuit's input assignments
        let ck = format!("{:?}", case.circ);
        let nt = *nontrivial_circuits.entry(ck).or_insert_with(|| {
            if case.circ.total_inputs() > 16 {
                // too many assignments to enumerate: compare with the complemented assignment
                let flipped: Vec<Vec<bool>> = case.inputs.iter().map(|v| v.iter().map(|b| !b).collect()).collect();
                return case.circ.eval(&flipped) != case.circ.eval(&case.inputs);
            }
            let all = case.circ.all_inputs();
            let first = case.circ.eval(&all[0]);
            all.iter().any(|i| case.circ.eval(i) != first)
        });
        if nt {
            distinct.insert(key.clone());
        }
        let kk = kind.split(':').next().unwrap().to_string();
        if nt && *sampled.entry(kk).or_insert(0u32) < 2 && { *sampled.get_mut(kind.split(':').next().unwrap()).unwrap() += 1; true } {
            rep.sample(json!({"sweep": kind, "case": key, "messages": msgs, "expected": crate::util::bits(&case.expected())}));
        }
        if let Err(e) = verdict {
            let class = format!("{}:{}", kind.split(':').next().unwrap(), e.split(',').next().unwrap_or("").split(' ').take(3).collect::<Vec<_>>().join("_"));
            rep.violation(class, format!("{e} in {key}"), json!({"kind": "mpc_case", "case": case}));
        }
        if !tmp_ok {
            rep.violation("tmp_dir_not_empty", key.clone(), json!({"kind": "mpc_case", "case": case}));
        }
    }
    rep.evaluations = done;
    rep.distinct_nontrivial = distinct.len() as u64;
    rep.exhaustive = Some(done as usize == cases.len());
    rep.rule = "sweep1: every canonical register program (operands a<=b, output register over every written register and the next fresh one) up to K gates per layout x every input assignment; sweep2: feature circuits x p_eval x p_out x tmp_dir masks; sweep3: AND chains at batch boundaries. distinct = distinct (circuit, inputs, roles); non-trivial = the circuit's expected output is not constant over its input assignments".into();
    rep.set("planned_cases", json!(cases.len()));
    rep.set("sweep_sizes", json!({"programs": sweep1, "roles": sweep2, "batch": sweep3}));
    rep.set("sweep1_program_counts", json!(sweep1_k));
    rep.set("cap_hit", json!((done as usize) < cases.len()));
    rep.assumptions = vec![
        "default schedule (C12 covers schedules)".into(),
        "entropy from the harness's deterministic getrandom backend".into(),
    ];
    rep.finish()
}
