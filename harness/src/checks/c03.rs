//! C03 - tampering with authenticated values in the online phase makes the victim abort.

use std::sync::Arc;

use polytune::verif::Hook;
use serde_json::json;

use crate::campaign::{Config, gen_cases, is_online, judge_detection, make_config, run_faults};
use crate::hooks::TapSpec;
use crate::mpcrun::MpcCase;
use crate::util::{Report, Tier, par_map};

pub fn online_configs(tier: Tier, seed: u64) -> Result<Vec<Config>, String> {
    let mut v = vec![];
    let mut roles: Vec<(usize, usize, usize)> = vec![(2, 1, 0), (2, 0, 0), (2, 0, 1), (2, 1, 1), (3, 1, 0), (3, 0, 0)];
    if tier.is_thorough() {
        roles.extend([(3, 2, 1), (3, 1, 1)]);
    }
    for (n, corrupted, p_eval) in roles {
        let c = super::c08::circuit(n);
        for mask in if tier.is_thorough() { vec![0b101u64, 0b010, 0b111] } else if n == 2 { vec![0b101u64, 0b010] } else { vec![0b101u64] } {
            let case = MpcCase { inputs: c.inputs_from_mask(mask), circ: c.clone(), p_eval, p_out: (0..n).collect(), tmp_mask: 0 };
            v.push(make_config(case, corrupted, crate::campaign::tape_seed(seed, (n * 100 + corrupted * 10 + p_eval) as u64 + mask), false)?);
        }
    }
    Ok(v)
}

pub fn main(tier: Tier, seed: u64) -> i32 {
    let mut rep = Report::new("C03", tier, seed, "fault_enumeration");
    if let Err(e) = super::selftest::determinism(seed) {
        rep.machinery(e);
        return rep.finish();
    }
    let cfgs = match online_configs(tier, seed) {
        Ok(c) => c,
        Err(e) => {
            rep.machinery(e);
            return rep.finish();
        }
    };
    let cap = if tier.is_thorough() { usize::MAX } else { 24 };
    let cases = match gen_cases(&cfgs, cap, tier.is_thorough(), &|l| is_online(l), true) {
        Ok(c) => c,
        Err(e) => {
            rep.machinery(e);
            return rep.finish();
        }
    };
    // count-changing mutations belong to C08 except omissions of optional entries
    let cases: Vec<_> = cases
        .into_iter()
        .filter(|c| !c.muts[0].malformed || matches!(c.muts[0].node, Some(crate::schema::NodeMut::SomeToNone)))
        // an omitted 'output wire shares'/'lambda' entry is judged by C02 (wrong output), not here
        .collect();
    let mut cases = cases;
    match crate::campaign::gen_pair_cases(&cfgs, &["wire shares", "output wire shares", "lambda"], 8) {
        Ok(p) => cases.extend(p),
        Err(e) => rep.machinery(e),
    }
    // several chunks of garbled gates: one circuit with more than 1000 AND gates; faults only in the
    // second 'preprocessed gates' message (first and last gate of the chunk, each of the 4 rows)
    let mut cfgs = cfgs;
    {
        let c = crate::circuits::and_chain(2, 1100);
        let case = MpcCase { inputs: c.inputs_from_mask(0b11), circ: c, p_eval: 0, p_out: vec![0, 1], tmp_mask: 0 };
        match make_config(case, 1, crate::campaign::tape_seed(seed, 3100), false) {
            Ok(big) => {
                let bi = cfgs.len();
                cfgs.push(big);
                match gen_cases(&cfgs[bi..], 2, false, &|l| l == "preprocessed gates", false) {
                    Ok(cs) => {
                        let mut seen = std::collections::HashSet::new();
                        for mut c in cs {
                            c.cfg = bi;
                            let m = &cfgs[bi].honest.msgs[c.msgs[0]];
                            let Some(path) = c.muts[0].path.clone() else { continue };
                            if m.ord >= 1 && path.len() >= 2 && seen.insert(path) {
                                cases.push(c);
                            }
                        }
                    }
                    Err(e) => rep.machinery(e),
                }
            }
            Err(e) => rep.machinery(e),
        }
    }
    let j = judge_detection(&mut rep, &cfgs, &cases, "C03");
    // tap: the garbler garbles a wrong share bit into the rows of AND gate g (rows still decrypt)
    let mut tap_cases = vec![];
    for (ci, cfg) in cfgs.iter().enumerate() {
        if cfg.corrupted == cfg.case.p_eval {
            continue;
        }
        let ands = cfg.case.circ.and_count();
        for g in (0..ands).filter(|g| ands <= 64 || [0, 999, 1000, ands - 1].contains(g)) {
            tap_cases.push((ci, g, usize::MAX));
            // the same with the list of MACs inside the rows cut short: no entry for the evaluator
            // (keep = p_eval entries), or none at all; the share must then count as unauthenticated
            if ands <= 64 {
                for keep in [0usize, cfg.case.p_eval] {
                    tap_cases.push((ci, g, keep));
                }
            }
        }
    }
    let tap_res = par_map(&tap_cases, |w, _, (ci, g, keep)| {
        let cfg = &cfgs[*ci];
        let keep = *keep;
        let cut = TapSpec {
            party: cfg.corrupted,
            name: "garble_macs_keep".into(),
            occ: Some(*g),
            f: Arc::new(move |h: &mut Hook<'_>| {
                if let Hook::Usizes(v) = h {
                    v[0] = keep;
                }
            }),
        };
        let tap = TapSpec {
            party: cfg.corrupted,
            name: "garble_r".into(),
            occ: Some(*g),
            f: Arc::new(|h: &mut Hook<'_>| {
                if let Hook::Bools(b) = h {
                    b[0] = !b[0];
                }
            }),
        };
        run_faults(cfg, vec![], if keep == usize::MAX { vec![tap] } else { vec![tap, cut] }, false, w).0
    });
    let mut tap_detected = 0;
    for ((ci, g, keep), r) in tap_cases.iter().zip(tap_res.iter()) {
        let cfg = &cfgs[*ci];
        let ev = cfg.case.p_eval;
        match r.outcomes[ev].0.as_str() {
            "Err" => tap_detected += 1,
            other => rep.violation(
                "undetected:garbled_share_bit",
                format!("{}: garbler {} flips its AND-share bit of gate {g} before row construction{} -> evaluator {other}({})", cfg.name, cfg.corrupted, if *keep == usize::MAX { String::new() } else { format!(" and keeps only {keep} entries of the MAC list inside the rows") }, r.outcomes[ev].1),
                json!({"kind":"tap","case":cfg.case,"corrupted":cfg.corrupted,"seed":cfg.seed,"tap":"garble_r","occ":g,"garble_macs_keep":keep}),
            ),
        }
    }
    // n = 2: a rushing peer that hands the victim its own message of a symmetric online round back
    // (both parties send 'wire shares', 'masked inputs' and, when both are output parties, 'output wire
    // shares' to each other): the victim must abort
    let mut refl = vec![];
    for (ci, cfg) in cfgs.iter().enumerate() {
        if cfg.case.n() == 2 && cfg.case.circ.and_count() <= 64 {
            for label in ["wire shares", "masked inputs", "output wire shares"] {
                refl.push((ci, label));
            }
        }
    }
    let refl_res = par_map(&refl, |w, _, (ci, label)| {
        let cfg = &cfgs[*ci];
        let victim = 1 - cfg.corrupted;
        let f = crate::exec::Fault { party: victim, dir: crate::exec::Dir::Recv, peer: cfg.corrupted, label: label.to_string(), ord: 0, mutation: crate::exec::Mutation::Reflect };
        let (fr, r) = run_faults(cfg, vec![f], vec![], false, w);
        (fr, r.faults_hit.first().copied().unwrap_or(false))
    });
    let mut refl_detected = 0u64;
    for ((ci, label), (r, hit)) in refl.iter().zip(refl_res.iter()) {
        let cfg = &cfgs[*ci];
        let victim = 1 - cfg.corrupted;
        if !*hit || r.identical {
            continue;
        }
        if r.outcomes[victim].0 == "Err" {
            refl_detected += 1;
        } else {
            rep.violation(format!("undetected:reflected:{label}"), format!("{}: the peer hands party {victim} its own {label:?} message back -> p{victim}:{}({})", cfg.name, r.outcomes[victim].0, r.outcomes[victim].1), json!({"kind":"reflect","case":cfg.case,"corrupted":cfg.corrupted,"seed":cfg.seed,"label":label}));
        }
    }
    rep.set("online_reflection", json!({"runs": refl.len(), "detected": refl_detected}));
    // a later chunk of garbled gates replaced by the previous chunk (same sizes, same sender)
    let mut chunk_replay = 0u64;
    for cfg in cfgs.iter().filter(|c| c.case.circ.and_count() > 64) {
        for m in cfg.honest.msgs.iter().filter(|m| m.from == cfg.corrupted && m.label == "preprocessed gates" && m.ord >= 1) {
            let Some(prev) = cfg.honest.msgs.iter().find(|e| e.from == m.from && e.to == m.to && e.label == m.label && e.ord + 1 == m.ord) else { continue };
            let mut bytes = (*prev.bytes).clone();
            // the last chunk is shorter: cut the previous one to the same number of gates
            if bytes.len() > m.bytes.len() && m.bytes.len() >= 8 {
                let per_gate = (prev.bytes.len() - 8) / u64::from_le_bytes(prev.bytes[..8].try_into().unwrap()).max(1) as usize;
                let gates = (m.bytes.len() - 8) / per_gate.max(1);
                bytes.truncate(8 + gates * per_gate);
                bytes[..8].copy_from_slice(&(gates as u64).to_le_bytes());
            }
            let r = run_faults(cfg, vec![crate::adv::send_fault(m, Arc::new(bytes))], vec![], false, 0).0;
            chunk_replay += 1;
            if r.outcomes[m.to].0 != "Err" {
                rep.violation("undetected:replayed:preprocessed gates", format!("{}: chunk #{} of the garbled gates replaced by chunk #{} -> p{}:{}({})", cfg.name, m.ord, prev.ord, m.to, r.outcomes[m.to].0, r.outcomes[m.to].1), json!({"kind":"reflect","case":cfg.case,"corrupted":cfg.corrupted,"seed":cfg.seed,"label":"preprocessed gates (chunk replay)"}));
            }
        }
    }
    rep.set("garbled_chunk_replays", json!(chunk_replay));
    rep.evaluations = j.evaluations + tap_cases.len() as u64 + refl.len() as u64;
    rep.distinct_nontrivial = j.nontrivial.len() as u64 + tap_detected;
    if rep.exhaustive.is_none() {
        rep.exhaustive = Some(true);
    }
    rep.set("trivial_cases", json!(j.trivial));
    rep.set("tap_cases", json!(tap_cases.len()));
    rep.set("configurations", json!(cfgs.iter().map(|c| c.name.clone()).collect::<Vec<_>>()));
    rep.rule = "online-phase messages of the corrupted party (wire shares, masked inputs, labels, preprocessed gates, output wire shares, lambda, broadcast echo): every field x position (quick: first/middle/last of long vectors) x {xor low bit, xor top bit, flip bool, Some->None; thorough adds set-zero/ones and every index}; n=3: to one recipient and consistently to all; plus the garbled-share tap per AND gate, alone and with the MAC list inside the rows cut to 0 / p_eval entries; plus a 1100-AND circuit (two chunks of garbled gates) with faults in the second chunk's message and taps at gates 0, 999, 1000, 1099. n=2: the victim is handed its own 'wire shares' / 'masked inputs' / 'output wire shares' message back (rushing peer). Oracle: the honest consumer returns Err. trivial = unread by design (inactive row, label not feeding an AND gate) or an input substitution (consistent change of the own masked input); distinct = (configuration, label/field, recipients, position)".into();
    rep.assumptions = vec![
        "a tampered value is counted only if it differs from the honest one; random MAC/AEAD forgeries are treated as impossible".into(),
        "active garbled row determined by trial: tampering an inactive row leaves everything the honest parties send and return identical".into(),
    ];
    rep.finish()
}
