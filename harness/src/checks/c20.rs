//! C20 - transpose, carry-less multiply and AES-based hash/PRG match their definitions.

use aes::Aes128;
use aes::cipher::{BlockCipherEncrypt, KeyInit};
use polytune::verif as pv;
use serde_json::json;

use crate::exec::mix;
use crate::util::{Budget, Report, Tier, par_map};

// ---------------- transpose ----------------

/// bit (r, c) of a row-major bit matrix with `cols` columns; bit order inside a byte: LSB first
fn get_bit(m: &[u8], cols: usize, r: usize, c: usize) -> bool {
    let idx = r * cols + c;
    (m[idx / 8] >> (idx % 8)) & 1 == 1
}

fn set_bit(m: &mut [u8], cols: usize, r: usize, c: usize) {
    let idx = r * cols + c;
    m[idx / 8] |= 1 << (idx % 8);
}

fn ref_transpose(input: &[u8], rows: usize, cols: usize) -> Vec<u8> {
    let mut out = vec![0u8; input.len()];
    for r in 0..rows {
        for c in 0..cols {
            if get_bit(input, cols, r, c) {
                set_bit(&mut out, rows, c, r);
            }
        }
    }
    out
}

#[derive(Clone, Copy, Debug, PartialEq)]
enum Impl {
    Dispatch,
    Portable,
}

fn run_transpose(which: Impl, input: &[u8], rows: usize, in_off: usize, out_off: usize) -> Vec<u8> {
    // unaligned buffers: copy into offset positions of larger buffers
    let mut ib = vec![0u8; input.len() + 8];
    ib[in_off..in_off + input.len()].copy_from_slice(input);
    let mut ob = vec![0u8; input.len() + 8];
    {
        let (i, o) = (&ib[in_off..in_off + input.len()], &mut ob[out_off..out_off + input.len()]);
        match which {
            Impl::Dispatch => pv::transpose_bitmatrix(i, o, rows),
            Impl::Portable => pv::transpose_bitmatrix_portable(i, o, rows),
        }
    }
    ob[out_off..out_off + input.len()].to_vec()
}

struct TStat {
    shapes: u64,
    cases: u64,
    basis_cases: u64,
    fails: Vec<String>,
    full_basis_shapes: u64,
}

fn transpose_shape(rows: usize, cols: usize, full_basis: bool, seed: u64, aligns: bool) -> TStat {
    let nbytes = rows * cols / 8;
    let mut st = TStat { shapes: 1, cases: 0, basis_cases: 0, fails: vec![], full_basis_shapes: full_basis as u64 };
    let mut check = |name: &str, input: &[u8], st: &mut TStat| {
        let exp = ref_transpose(input, rows, cols);
        for which in [Impl::Dispatch, Impl::Portable] {
            st.cases += 1;
            let got = run_transpose(which, input, rows, 0, 0);
            if got != exp && st.fails.len() < 5 {
                let pos = got.iter().zip(&exp).position(|(a, b)| a != b).unwrap();
                st.fails.push(format!("{which:?} {rows}x{cols} input {name}: first wrong output byte {pos}"));
            }
        }
    };
    // dense inputs: all-ones, checkerboards, tape-derived, index-encoding matrices
    let mut dense: Vec<(String, Vec<u8>)> = vec![
        ("all-ones".into(), vec![0xff; nbytes]),
        ("checker-55".into(), vec![0x55; nbytes]),
        ("checker-rows".into(), (0..nbytes).map(|i| if (i * 8 / cols) % 2 == 0 { 0xaa } else { 0x55 }).collect()),
    ];
    for t in 0..2u64 {
        dense.push((format!("tape{t}"), (0..nbytes).map(|i| mix(seed ^ t, i as u64) as u8).collect()));
    }
    let nbits = rows * cols;
    let mut b = 0;
    while (1usize << b) < nbits {
        // bit b of the source index: determines the source of every output bit if the map is a permutation
        let m: Vec<u8> = (0..nbytes)
            .map(|i| {
                let mut byte = 0u8;
                for k in 0..8 {
                    if ((i * 8 + k) >> b) & 1 == 1 {
                        byte |= 1 << k;
                    }
                }
                byte
            })
            .collect();
        dense.push((format!("index-bit{b}"), m));
        b += 1;
    }
    for (name, m) in &dense {
        check(name, m, &mut st);
    }
    // linearity on xor pairs of dense inputs
    {
        let a = &dense[3].1;
        let bm = &dense[4].1;
        let x: Vec<u8> = a.iter().zip(bm).map(|(p, q)| p ^ q).collect();
        for which in [Impl::Dispatch, Impl::Portable] {
            let ta = run_transpose(which, a, rows, 0, 0);
            let tb = run_transpose(which, bm, rows, 0, 0);
            let tx = run_transpose(which, &x, rows, 0, 0);
            st.cases += 1;
            if tx.iter().zip(ta.iter().zip(&tb)).any(|(x, (p, q))| *x != p ^ q) {
                st.fails.push(format!("{which:?} {rows}x{cols}: not linear on a xor pair"));
            }
        }
    }
    // single-bit basis
    let positions: Vec<(usize, usize)> = if full_basis {
        (0..rows).flat_map(|r| (0..cols).map(move |c| (r, c))).collect()
    } else {
        // every bit of the first, a middle and the last 128x128 tile and of the ragged tail, strided rows elsewhere
        let mut v = vec![];
        let tiles = cols / 128;
        let tail_start = tiles * 128;
        let col_sets: Vec<std::ops::Range<usize>> = {
            let mut s = vec![];
            if tiles >= 1 {
                s.push(0..128);
                s.push((tiles / 2) * 128..(tiles / 2) * 128 + 128);
                s.push((tiles - 1) * 128..tiles * 128);
            }
            if tail_start < cols {
                s.push(tail_start..cols);
            }
            s
        };
        for r in (0..rows).step_by(if rows * cols > 128 * 512 { 17 } else { 5 }).chain([rows - 1]) {
            for cs in &col_sets {
                for c in cs.clone().step_by(if cols > 512 { 3 } else { 1 }) {
                    v.push((r, c));
                }
            }
        }
        v.sort();
        v.dedup();
        v
    };
    let mut input = vec![0u8; nbytes];
    let mut outbuf = vec![0u8; nbytes];
    for (r, c) in positions {
        let idx = r * cols + c;
        input[idx / 8] = 1 << (idx % 8);
        for which in [Impl::Dispatch, Impl::Portable] {
            outbuf.iter_mut().for_each(|b| *b = 0xcc);
            match which {
                Impl::Dispatch => pv::transpose_bitmatrix(&input, &mut outbuf, rows),
                Impl::Portable => pv::transpose_bitmatrix_portable(&input, &mut outbuf, rows),
            }
            st.cases += 1;
            st.basis_cases += 1;
            let oidx = c * rows + r;
            let ok = outbuf[oidx / 8] == 1 << (oidx % 8)
                && outbuf.iter().enumerate().all(|(i, b)| i == oidx / 8 || *b == 0);
            if !ok && st.fails.len() < 5 {
                st.fails.push(format!("{which:?} {rows}x{cols}: single bit ({r},{c}) is not transposed to ({c},{r})"));
            }
        }
        input[idx / 8] = 0;
    }
    // unaligned buffers
    if aligns {
        let m = &dense[3].1;
        let exp = ref_transpose(m, rows, cols);
        for io in 0..4 {
            for oo in 0..4 {
                for which in [Impl::Dispatch, Impl::Portable] {
                    st.cases += 1;
                    if run_transpose(which, m, rows, io, oo) != exp {
                        st.fails.push(format!("{which:?} {rows}x{cols}: wrong with input offset {io}, output offset {oo}"));
                    }
                }
            }
        }
    }
    st
}

// ---------------- clmul ----------------

fn ref_clmul(a: u128, b: u128) -> (u128, u128) {
    let (mut lo, mut hi) = (0u128, 0u128);
    for i in 0..128 {
        if (b >> i) & 1 == 1 {
            lo ^= a << i;
            if i > 0 {
                hi ^= a >> (128 - i);
            }
        }
    }
    (lo, hi)
}

fn clmul_checks(seed: u64, tape_pairs: usize) -> (u64, u64, Vec<String>) {
    let mut fails = vec![];
    let mut n = 0u64;
    let mut basis = 0u64;
    let mut check = |a: u128, b: u128, fails: &mut Vec<String>| {
        let exp = ref_clmul(a, b);
        let d = pv::clmul(a, b);
        let s = pv::clmul_scalar(a, b);
        if (d != exp || s != exp) && fails.len() < 8 {
            fails.push(format!("clmul({a:#x},{b:#x}): dispatch {d:x?} scalar {s:x?} expected {exp:x?}"));
        }
    };
    for i in 0..128 {
        for j in 0..128 {
            check(1u128 << i, 1u128 << j, &mut fails);
            n += 1;
            basis += 1;
        }
    }
    let mut special: Vec<u128> = vec![0, 1, u128::MAX, 0xaaaa_aaaa_aaaa_aaaa_aaaa_aaaa_aaaa_aaaa, 0x5555_5555_5555_5555_5555_5555_5555_5555, 1 << 63, 1 << 64, 1 << 127];
    for l in 1..=128u32 {
        special.push(if l == 128 { u128::MAX } else { (1u128 << l) - 1 });
    }
    let dense: Vec<u128> = (0..8).map(|i| ((mix(seed, 2 * i) as u128) << 64) | mix(seed, 2 * i + 1) as u128).collect();
    for &a in &special {
        for &b in &special {
            check(a, b, &mut fails);
            n += 1;
        }
        for &b in &dense {
            check(a, b, &mut fails);
            check(b, a, &mut fails);
            n += 2;
        }
    }
    for i in 0..128 {
        for &b in &dense {
            check(1u128 << i, b, &mut fails);
            n += 1;
        }
    }
    for i in 0..tape_pairs as u64 {
        let a = ((mix(seed ^ 1, 4 * i) as u128) << 64) | mix(seed ^ 1, 4 * i + 1) as u128;
        let b = ((mix(seed ^ 1, 4 * i + 2) as u128) << 64) | mix(seed ^ 1, 4 * i + 3) as u128;
        check(a, b, &mut fails);
        n += 1;
    }
    (n, basis, fails)
}

// ---------------- AES hashes and AesRng ----------------

const FIXED_KEY: u128 = 193502124791825095790518994062991136444;

fn aes_enc(aes: &Aes128, x: [u8; 16]) -> [u8; 16] {
    let mut b = aes::cipher::Array(x);
    aes.encrypt_block(&mut b);
    b.0
}

fn xor16(a: [u8; 16], b: [u8; 16]) -> [u8; 16] {
    std::array::from_fn(|i| a[i] ^ b[i])
}

fn hash_checks(seed: u64, tape_blocks: usize) -> (u64, Vec<String>) {
    let aes = Aes128::new(&aes::cipher::Array(FIXED_KEY.to_le_bytes()));
    let mut blocks: Vec<[u8; 16]> = vec![[0; 16], [0xff; 16]];
    for i in 0..128 {
        let mut b = [0u8; 16];
        b[i / 8] = 1 << (i % 8);
        blocks.push(b);
    }
    for i in 0..tape_blocks as u64 {
        let mut b = [0u8; 16];
        b[..8].copy_from_slice(&mix(seed ^ 7, 2 * i).to_le_bytes());
        b[8..].copy_from_slice(&mix(seed ^ 7, 2 * i + 1).to_le_bytes());
        blocks.push(b);
    }
    let mut fails = vec![];
    let mut n = 0;
    for (i, &x) in blocks.iter().enumerate() {
        let px = aes_enc(&aes, x);
        n += 1;
        if pv::cr_hash_block(x) != xor16(px, x) && fails.len() < 5 {
            fails.push(format!("cr_hash_block({x:x?}) != pi(x)^x"));
        }
        // tweaks: all structured ones for structured x, a rotating one otherwise
        let tweaks: Vec<[u8; 16]> = if i < 130 { blocks[..130].to_vec() } else { vec![blocks[(i * 7) % blocks.len()], pv::block_from_u128(i as u128)] };
        for t in tweaks {
            n += 1;
            let exp = xor16(aes_enc(&aes, xor16(px, t)), px);
            if pv::tccr_hash_block(t, x) != exp && fails.len() < 5 {
                fails.push(format!("tccr_hash_block(tweak {t:x?}, {x:x?}) != pi(pi(x)^t)^pi(x)"));
            }
        }
    }
    (n, fails)
}

fn keystream(seed: [u8; 16], nbytes: usize) -> Vec<u8> {
    let aes = Aes128::new(&aes::cipher::Array(seed));
    let mut out = Vec::with_capacity(nbytes + 16);
    let mut ctr = 0u128;
    while out.len() < nbytes {
        out.extend(aes_enc(&aes, ctr.to_le_bytes()));
        ctr += 1;
    }
    out
}

#[derive(Clone, Copy, Debug)]
enum Call {
    U32,
    U64,
    Fill(usize),
}

fn prg_checks(seed: u64, max_len: usize, seq_len: usize) -> (u64, u64, Vec<String>) {
    let mut fails = vec![];
    let mut n = 0u64;
    let seeds: Vec<[u8; 16]> = (0..8u64)
        .map(|i| {
            let mut s = [0u8; 16];
            if i > 0 {
                s[..8].copy_from_slice(&mix(seed ^ 3, i).to_le_bytes());
                s[8..].copy_from_slice(&mix(seed ^ 3, i + 100).to_le_bytes());
            }
            s
        })
        .collect();
    for s in &seeds {
        let ks = keystream(*s, max_len + 16);
        for len in 0..=max_len {
            let mut g = pv::Prg::from_seed(*s);
            let mut buf = vec![0u8; len];
            g.fill_bytes(&mut buf);
            n += 1;
            if buf != ks[..len] && fails.len() < 5 {
                let pos = buf.iter().zip(&ks).position(|(a, b)| a != b).unwrap();
                fails.push(format!("fill_bytes({len}) from a fresh generator differs from the AES-CTR keystream at byte {pos}"));
            }
        }
    }
    // call sequences: every emitted run is a substring of the keystream, no keystream byte twice
    let alpha = [Call::U32, Call::U64, Call::Fill(0), Call::Fill(1), Call::Fill(15), Call::Fill(16), Call::Fill(17), Call::Fill(127), Call::Fill(128), Call::Fill(129)];
    let mut seqs = 0u64;
    let s = seeds[1];
    let ks = keystream(s, 16 * 8 * (seq_len + 2) * 3);
    let mut idx = vec![0usize; seq_len];
    'outer: loop {
        for l in 1..=seq_len {
            // only count full-length sequences once; prefixes are covered implicitly
            if l < seq_len {
                continue;
            }
            let mut g = pv::Prg::from_seed(s);
            let mut used = vec![false; ks.len()];
            seqs += 1;
            for c in idx.iter().map(|i| alpha[*i]) {
                let out: Vec<u8> = match c {
                    Call::U32 => g.next_u32().to_le_bytes().to_vec(),
                    Call::U64 => g.next_u64().to_le_bytes().to_vec(),
                    Call::Fill(k) => {
                        let mut b = vec![0u8; k];
                        g.fill_bytes(&mut b);
                        b
                    }
                };
                if out.is_empty() {
                    continue;
                }
                // runs may be split at the tail of fill_bytes (whole blocks, then the remainder); check
                // maximal pieces: whole-block prefix and remainder separately for Fill, whole for words
                let pieces: Vec<&[u8]> = match c {
                    Call::Fill(k) if k >= 16 && k % 16 != 0 => vec![&out[..k / 16 * 16], &out[k / 16 * 16..]],
                    _ => vec![&out[..]],
                };
                for piece in pieces {
                    // find an unused occurrence in the keystream at 4-byte alignment
                    let mut found = None;
                    let mut off = 0;
                    while off + piece.len() <= ks.len() {
                        if &ks[off..off + piece.len()] == piece && !used[off..off + piece.len()].iter().any(|u| *u) {
                            found = Some(off);
                            break;
                        }
                        off += 4;
                    }
                    match found {
                        Some(o) => used[o..o + piece.len()].iter_mut().for_each(|u| *u = true),
                        None => {
                            if fails.len() < 5 {
                                fails.push(format!("call sequence {:?}: output of {c:?} is not a fresh substring of the keystream", idx.iter().map(|i| alpha[*i]).collect::<Vec<_>>()));
                            }
                        }
                    }
                }
            }
        }
        let mut k = 0;
        loop {
            if k == seq_len {
                break 'outer;
            }
            idx[k] += 1;
            if idx[k] < alpha.len() {
                break;
            }
            idx[k] = 0;
            k += 1;
        }
    }
    (n, seqs, fails)
}

pub fn main(tier: Tier, seed: u64) -> i32 {
    let mut rep = Report::new("C20", tier, seed, "exploration");
    let budget = Budget::new(if tier.is_thorough() { 1200.0 } else { 40.0 });
    // transpose shapes
    let mut shapes: Vec<(usize, usize, bool, bool)> = vec![];
    for c in (16..=4096).step_by(8) {
        let full = if tier.is_thorough() { true } else { c <= 128 };
        shapes.push((128, c, full, c % 200 == 16 || c == 4096));
    }
    for rows in [256usize, 384] {
        for c in (16..=512).step_by(8) {
            shapes.push((rows, c, tier.is_thorough() && c <= 128, false));
        }
    }
    // more row blocks, ragged and aligned column counts on both sides of the 128- and 512-column blocks
    for rows in [512usize, 640, 1024] {
        for c in [16usize, 24, 120, 128, 136, 256, 264, 504, 512, 520, 552, 1088] {
            shapes.push((rows, c, false, false));
        }
    }
    // largest first so that the parallel schedule is balanced
    shapes.sort_by_key(|s| std::cmp::Reverse(s.0 * s.1 * if s.2 { 40 } else { 1 }));
    let stop = std::sync::atomic::AtomicBool::new(false);
    let tstats = crate::util::par_map_until(
        &shapes,
        |_, _, (rows, cols, full, aligns)| {
            if budget.exhausted() {
                stop.store(true, std::sync::atomic::Ordering::Relaxed);
            }
            // a panic of the subject on a shape it accepts is a violation, not a harness failure
            match std::panic::catch_unwind(|| transpose_shape(*rows, *cols, *full, seed, *aligns)) {
                Ok(st) => st,
                Err(e) => {
                    let msg = e.downcast_ref::<String>().cloned().or_else(|| e.downcast_ref::<&str>().map(|s| s.to_string())).unwrap_or_default();
                    TStat { shapes: 1, cases: 1, basis_cases: 0, fails: vec![format!("{rows}x{cols}: transpose panicked: {}", msg.chars().take(120).collect::<String>())], full_basis_shapes: 0 }
                }
            }
        },
        &stop,
    );
    let mut t_cases = 0;
    let mut t_basis = 0;
    let mut t_shapes = 0;
    let mut t_full = 0;
    for s in tstats.iter().flatten() {
        t_cases += s.cases;
        t_basis += s.basis_cases;
        t_shapes += s.shapes;
        t_full += s.full_basis_shapes;
        for f in &s.fails {
            rep.violation("transpose", f.clone(), json!({"kind":"c20","what":f}));
        }
    }
    let capped = t_shapes < shapes.len() as u64;
    rep.set("transpose", json!({"shapes_planned": shapes.len(), "shapes_done": t_shapes, "cases": t_cases, "single_bit_cases": t_basis, "full_basis_shapes": t_full, "cap_hit": capped}));
    rep.sample(json!({"transpose_shape": "128 x 1000 (ragged: not a multiple of 128)", "inputs": "all-ones, checkerboards, 2 tape-derived, index-bit matrices, single-bit matrices; AVX2-dispatching and portable implementation vs. bit-by-bit reference"}));

    let cl_n = if tier.is_thorough() { 200_000 } else { 10_000 };
    let (c_n, c_basis, c_f) = std::panic::catch_unwind(|| clmul_checks(seed, cl_n)).unwrap_or_else(|_| (1, 0, vec!["clmul panicked".to_string()]));
    for f in &c_f {
        rep.violation("clmul", f.clone(), json!({"kind":"c20","what":f}));
    }
    rep.set("clmul", json!({"pairs": c_n, "basis_pairs": c_basis}));
    rep.sample(json!({"clmul_pair": "x^63 * x^64 -> expected low=0, high=x^127/2^... (schoolbook shift-and-xor with explicit low/high split)"}));

    let thorough = tier.is_thorough();
    let (h_n, h_f) = std::panic::catch_unwind(|| hash_checks(seed, if thorough { 65536 } else { 4096 })).unwrap_or_else(|_| (1, vec!["the AES hash panicked".to_string()]));
    for f in &h_f {
        rep.violation("aes_hash", f.clone(), json!({"kind":"c20","what":f}));
    }
    rep.set("aes_hash_evaluations", json!(h_n));

    let (p_n, p_seqs, p_f) = std::panic::catch_unwind(|| prg_checks(seed, 1100, if thorough { 4 } else { 3 })).unwrap_or_else(|_| (1, 0, vec!["AesRng panicked".to_string()]));
    for f in &p_f {
        rep.violation(if f.contains("call sequence") { "aes_rng_sequence" } else { "aes_rng_keystream" }, f.clone(), json!({"kind":"c20","what":f}));
    }
    rep.set("aes_rng", json!({"single_call_lengths": p_n, "call_sequences": p_seqs}));
    rep.sample(json!({"aes_rng": "seed s, fill_bytes(17) from a fresh generator == AES128_s(0u128 LE) || first byte of AES128_s(1u128 LE)"}));

    rep.evaluations = t_cases + c_n + h_n + p_n + p_seqs;
    rep.distinct_nontrivial = t_basis + c_basis + h_n + p_n;
    rep.exhaustive = Some(!capped);
    rep.rule = "transpose: every shape 128 x c, c in 16,24..4096, and 256/384 x c up to 512, 512/640/1024 x 12 column counts around the 128- and 512-column blocks; single-bit basis (full for small shapes / all shapes in thorough, structured subsets otherwise), index-bit matrices (which pin down any bit permutation), dense inputs, linearity on xor pairs, 16 buffer alignments; clmul: all 128x128 basis pairs, structured x structured, structured x dense, tape-derived pairs; AES hashes vs the aes crate under the fixed key; AesRng: every request length 0..1100 from a fresh generator for 8 seeds vs AES-CTR keystream, and every call sequence of fixed length over 10 call kinds. distinct non-trivial = basis cases + lengths + hash blocks".into();
    rep.assumptions = vec!["AES over its full 2^128 domain is not enumerable; only the structured and tape-derived blocks are covered".into(), "the dispatching entry points take the AVX2/PCLMUL path on this CPU; the portable implementations are called directly".into()];
    rep.finish()
}
