//! C14 - server core: stray or malformed commands never crash or disturb a computation.

use serde_json::json;

use super::c13::{coordination_only, oracle, spec};
use crate::srv::{Ev, MsgPolicy, Stray, Walk, comp_id, make_policies, run_walk};
use crate::srvx::{SrvSpace, explore};
use crate::util::{Budget, Report, Tier, par_map};

fn menu(n: usize, party: usize, thorough: bool) -> Vec<Stray> {
    let mut v = vec![Stray::ScheduleSame, Stray::Run];
    for q in (0..n).filter(|q| *q != party) {
        v.push(Stray::ScheduleOtherParty(q as u8));
    }
    let consts_from: Vec<u64> = if thorough { vec![0, (n - 1) as u64, n as u64, u64::MAX] } else { vec![0, n as u64, u64::MAX] };
    for from in consts_from {
        v.push(Stray::Consts { from, nonempty: false });
        v.push(Stray::Consts { from, nonempty: true });
    }
    let msg_from: Vec<u64> = if thorough { vec![0, party as u64, (n - 1) as u64, n as u64, (n + 5) as u64, u64::MAX] } else { vec![0, party as u64, n as u64, u64::MAX] };
    for from in msg_from {
        for empty in [true, false] {
            v.push(Stray::Msg { from, empty });
        }
    }
    // a further validate; only injected where the state machine is past the point of accepting one
    v.push(Stray::ValidateDup { wrong_hash: false });
    v.push(Stray::ValidateDup { wrong_hash: true });
    v.sort();
    v.dedup();
    v
}

/// An external run is valid in state Validated only.  For a follower that is: it has been scheduled,
/// the leader's validate has been delivered to it, and no run has been delivered yet.  (The leader
/// sends itself an internal run; a stray one may legitimately take its place, so the leader is not
/// constrained here.)
pub fn run_is_invalid(prefix: &[Ev], party: usize, leader: usize) -> bool {
    if party == leader {
        return false;
    }
    let scheduled = prefix.iter().any(|e| matches!(e, Ev::Schedule { party: p, .. } if *p as usize == party));
    let validated = prefix.iter().any(|e| matches!(e, Ev::Deliver(k) if k.kind == crate::srv::Kind::Validate && k.to as usize == party));
    let run = prefix.iter().any(|e| matches!(e, Ev::Deliver(k) if k.kind == crate::srv::Kind::Run && k.to as usize == party));
    !(scheduled && validated && !run)
}

/// validate is valid in Init and AwaitingValidation only: a further one is invalid for the state once
/// a validate has been delivered to the party or the party has been scheduled as leader
pub fn validate_is_invalid(prefix: &[Ev], party: usize, leader: usize) -> bool {
    prefix.iter().any(|e| match e {
        Ev::Deliver(k) => k.kind == crate::srv::Kind::Validate && k.to as usize == party,
        Ev::Schedule { party: p, .. } => *p as usize == party && party == leader,
        _ => false,
    })
}

pub fn main(tier: Tier, seed: u64) -> i32 {
    let mut rep = Report::new("C14", tier, seed, "fault_enumeration");
    if let Err(e) = crate::srvx::selftest(seed) {
        rep.machinery(e);
        return rep.finish();
    }
    let cfgs: Vec<(usize, usize, Vec<usize>, Vec<bool>)> = if tier.is_thorough() {
        vec![(2, 0, vec![0, 1], vec![true, true]), (2, 1, vec![], vec![true, true]), (3, 1, vec![0, 2], vec![true, true, true]), (3, 0, vec![], vec![true, false, true])]
    } else {
        vec![(2, 0, vec![0, 1], vec![true, true]), (3, 1, vec![2], vec![true, true, true])]
    };
    let mut jobs = vec![];
    let mut bases: Vec<(usize, Vec<Vec<polytune_server_core::Policy>>, Vec<Ev>, bool)> = vec![];
    let xbudget = Budget::new(if tier.is_thorough() { 1800.0 } else { 15.0 });
    let mut coord_states = 0u64;
    let mut coord_capped = false;
    for (ci, (n, leader, consts, outs)) in cfgs.iter().enumerate() {
        let (sp, expected) = spec(*n, *leader, consts, outs.clone());
        let pols = vec![make_policies(&sp, comp_id(seed, 1400 + ci as u64))];
      for variant in 0..2usize {
        // variant 0: default order (all schedules first); variant 1: the leader's validate reaches every
        // follower before the follower is scheduled (ValidateRequested path)
        let mut prefer = vec![];
        if variant == 1 {
            prefer.push(Ev::Schedule { pol: 0, party: *leader as u8 });
            for f in (0..*n).filter(|f| f != leader) {
                prefer.push(Ev::Deliver(crate::srv::RpcKey { pol: 0, from: *leader as u8, to: f as u8, kind: crate::srv::Kind::Validate, occ: 0 }));
            }
        }
        let base = match run_walk(*n, 1, pols.clone(), Walk { prefer, max_steps: 10_000, ..Default::default() }, MsgPolicy::Explicit, crate::exec::mix(seed, 1400 + ci as u64)) {
            Ok(b) => b,
            Err(e) => {
                rep.machinery(format!("base walk failed: {e}"));
                continue;
            }
        };
        if let Err((c, d)) = oracle(&base.snapshot, *n, outs, expected, 1) {
            rep.machinery(format!("base history is not a correct run: {c}: {d}"));
            continue;
        }
        let len = base.history.len();
        let first_msg = base.history.iter().position(|e| matches!(e, Ev::Msg { .. })).unwrap_or(len);
        let mut positions: Vec<usize> = (0..=first_msg.min(len)).collect();
        // during MPC: a few positions (thorough: every 6th)
        let step = if tier.is_thorough() { 6 } else { 25 };
        if variant == 0 {
            positions.extend((first_msg + 1..len).step_by(step));
        }
        positions.push(len);
        positions.sort();
        positions.dedup();
        for party in 0..*n {
            for cmd in menu(*n, party, tier.is_thorough()) {
                // a schedule is a *duplicate* (invalid for the state) only after the party's own schedule
                let own_sched = base.history.iter().position(|e| matches!(e, Ev::Schedule { party: p, .. } if *p as usize == party)).unwrap_or(0);
                for &at in &positions {
                    if matches!(cmd, Stray::ScheduleSame | Stray::ScheduleOtherParty(_)) && at <= own_sched {
                        continue;
                    }
                    if matches!(cmd, Stray::ValidateDup { .. }) && !validate_is_invalid(&base.history[..at.min(len)], party, *leader) {
                        continue;
                    }
                    jobs.push((bases.len(), party, cmd.clone(), at));
                }
            }
        }
        bases.push((ci, pols.clone(), base.history.clone(), expected));
      }
        // every reachable coordination state (C13 explorer): each stray command right there, then the
        // run continues in default order.  n=3 only in the thorough tier.
        let first_n3 = cfgs.iter().position(|c| c.0 == 3) == Some(ci);
        if *n == 2 || (tier.is_thorough() && first_n3) {
            let space = SrvSpace { n: *n, concurrency: 1, policies: pols.clone(), seed: crate::exec::mix(seed, 1400 + ci as u64), msg_policy: MsgPolicy::Eager };
            let ex = explore(&space, vec![], &coordination_only, &xbudget, if tier.is_thorough() { 30_000 } else { 3_000 }, true);
            coord_capped |= ex.capped;
            for m in ex.machinery.iter().take(2) {
                rep.machinery(m.clone());
            }
            coord_states += ex.complete.len() as u64;
            for (h, _) in ex.complete.iter() {
                for party in 0..*n {
                    let own_sched = h.iter().any(|e| matches!(e, Ev::Schedule { party: p, .. } if *p as usize == party));
                    // n=3: one command of each kind (the full menu runs at the base histories)
                    let cmds = if *n == 2 {
                        menu(*n, party, false)
                    } else {
                        vec![Stray::Run, Stray::Msg { from: *n as u64, empty: false }, Stray::ValidateDup { wrong_hash: false }]
                    };
                    for cmd in cmds {
                        if matches!(cmd, Stray::ScheduleSame | Stray::ScheduleOtherParty(_)) && !own_sched {
                            continue;
                        }
                        if matches!(cmd, Stray::ValidateDup { .. }) && !validate_is_invalid(h, party, *leader) {
                            continue;
                        }
                        jobs.push((bases.len(), party, cmd.clone(), h.len()));
                    }
                }
                bases.push((ci, pols.clone(), h.clone(), expected));
            }
        }
    }
    let results = par_map(&jobs, |_, _, (bi, party, cmd, at)| {
        let (ci, pols, base, _) = &bases[*bi];
        let (n, _, _, _) = &cfgs[*ci];
        let walk = Walk { injections: vec![(*at, Ev::Stray { pol: 0, party: *party as u8, cmd: cmd.clone() })], prefer: base.clone(), max_steps: 10_000, ..Default::default() };
        run_walk(*n, 1, pols.clone(), walk, MsgPolicy::Explicit, crate::exec::mix(seed, 1400 + *ci as u64))
    });
    let mut breakdown: std::collections::BTreeMap<String, u64> = Default::default();
    let mut unanswered_samples: Vec<serde_json::Value> = vec![];
    let mut rejected = 0u64;
    let mut accepted = 0u64;
    let mut unanswered = 0u64;
    let mut distinct = std::collections::HashSet::new();
    for ((bi, party, cmd, at), r) in jobs.iter().zip(results.iter()) {
        let ci = &bases[*bi].0;
        let (n, leader, consts, outs) = &cfgs[*ci];
        let expected = bases[*bi].3;
        let r = match r {
            Ok(r) => r,
            Err(e) => {
                rep.machinery(format!("walk failed: {e}"));
                continue;
            }
        };
        rep.evaluations += 1;
        let snap = &r.snapshot;
        let desc = format!("n={n} leader={leader} consts_from={consts:?}: {cmd:?} sent to party {party} after event #{at}");
        let replay = json!({"kind":"srv14","n":n,"leader":leader,"consts_from":consts,"outputs":outs,"party":party,"cmd":cmd,"at":at,"history":r.history});
        let cmd_class = match cmd {
            Stray::ScheduleSame | Stray::ScheduleOtherParty(_) => "schedule",
            Stray::Run => "run",
            Stray::Consts { .. } => "consts",
            Stray::Msg { from, .. } => if (*from as usize) < *n { "msg_known_sender" } else { "msg_unknown_sender" },
            _ => "validate",
        };
        if let Some((_, p, _)) = snap.actors_finished.iter().find(|a| a.2) {
            rep.violation(format!("actor_panicked:{cmd_class}"), format!("{desc}: state machine of party {p} panicked"), replay.clone());
            continue;
        }
        let call = snap.calls.iter().find(|c| c.what.starts_with("stray:") && c.party as usize == *party);
        {
            let k = match cmd {
                Stray::Consts { from, .. } => format!("consts from {}", if (*from as usize) < *n { "in range" } else { "out of range" }),
                Stray::Msg { from, .. } => format!("msg from {}", if (*from as usize) < *n { "in range" } else { "out of range" }),
                other => format!("{other:?}").split([' ', '(', '{']).next().unwrap_or("").to_string(),
            };
            let a = match call.map(|c| &c.result) {
                Some(Ok(())) => "accepted",
                Some(Err(_)) => "rejected",
                None => "unanswered",
            };
            *breakdown.entry(format!("{k}: {a}")).or_insert(0u64) += 1;
        }
        match call.map(|c| &c.result) {
            Some(Err(e)) if e == "NotFound" && matches!(cmd, Stray::ValidateDup { .. }) => {}
            Some(Err(_)) => {
                rejected += 1;
                distinct.insert((*bi, *party, format!("{cmd:?}"), *at));
                // answered with an error: the computation under way must be unaffected
                if let Err((class, d)) = oracle(snap, *n, outs, expected, 1) {
                    rep.violation(format!("outcome_changed:{cmd_class}:{class}"), format!("{desc}: the stray command was answered with an error, yet {d}"), replay.clone());
                }
            }
            Some(Ok(())) => {
                accepted += 1;
                // a command that carries an out-of-range party index can never be legitimate
                if let Stray::Consts { from, .. } = cmd
                    && *from as usize >= *n
                {
                    let changed = oracle(snap, *n, outs, expected, 1).err();
                    rep.violation(
                        if changed.is_some() { "out_of_range_consts_accepted:outcome_changed" } else { "out_of_range_consts_accepted" },
                        format!("{desc}: answered Ok{}", changed.map(|(c, d)| format!("; afterwards {c}: {d}")).unwrap_or_default()),
                        replay.clone(),
                    );
                }
                let stray_pos = r.history.iter().position(|e| matches!(e, Ev::Stray { .. })).unwrap_or(0);
                if matches!(cmd, Stray::Run) && run_is_invalid(&r.history[..stray_pos], *party, *leader) {
                    rep.violation("run_accepted_in_invalid_state", format!("{desc}: answered Ok although the party is not waiting for its run (not yet validated, or its run has already been delivered)"), replay.clone());
                }
                if matches!(cmd, Stray::ValidateDup { .. }) {
                    rep.violation("validate_accepted_in_invalid_state", format!("{desc}: answered Ok although the state machine had already received its validate (or leads the computation)"), replay.clone());
                }
                // an MPC message naming an unknown sender can never be legitimate
                if let Stray::Msg { from, .. } = cmd
                    && *from as usize >= *n
                {
                    rep.violation("unknown_sender_accepted", format!("{desc}: answered Ok"), replay.clone());
                }
            }
            None => {
                unanswered += 1;
                if unanswered_samples.len() < 6 && matches!(cmd, Stray::ScheduleSame | Stray::ScheduleOtherParty(_)) {
                    unanswered_samples.push(json!({"case": desc, "alive": snap.actors_alive, "outputs": snap.outputs.iter().map(|o| format!("party {} <- {:?}", o.party, o.result)).collect::<Vec<_>>(), "history_tail": r.history.iter().rev().take(4).map(|e| format!("{e:?}")).collect::<Vec<_>>()}));
                }
                if matches!(cmd, Stray::ValidateDup { .. }) {
                    rep.violation("validate_swallowed_in_invalid_state", format!("{desc}: never answered"), replay.clone());
                }
            }
        }
        if rep.samples.len() < 4 && rep.evaluations % 97 == 3 {
            rep.sample(json!({"case": desc, "stray_result": call.map(|c| format!("{:?}", c.result)), "outputs": snap.outputs.iter().map(|o| format!("party {} <- {:?}", o.party, o.result)).collect::<Vec<_>>()}));
        }
    }
    rep.distinct_nontrivial = distinct.len() as u64;
    rep.exhaustive = Some(!coord_capped);
    rep.set("coordination_states_with_stray_commands", json!(coord_states));
    rep.set("coordination_exploration_capped", json!(coord_capped));
    rep.set("answers_by_command", json!(breakdown));
    rep.set("unanswered_schedule_samples", json!(unanswered_samples));
    rep.set("stray_rejected", json!(rejected));
    rep.set("stray_accepted_as_valid_for_state", json!(accepted));
    rep.set("stray_never_answered", json!(unanswered));
    rep.rule = "base = default-order complete history (with constants, explicit MPC-message events) for n=2 and n=3; at every prefix length among coordination events and at spaced positions during MPC, each stray command (duplicate schedule / schedule with another party's policy / run / consts from in- and out-of-range parties / mpc_msg with sender in {0, own, n-1, n, n+5, usize::MAX} x empty/non-empty / a further validate, with the right and with a wrong program hash, wherever the party has already received its validate or leads the computation) is sent once to each party; then the base history is continued. In addition (n=2: every command of the menu; thorough tier: the first n=3 configuration with one command of each kind) a command is sent to each party in every reachable coordination state (all histories of schedule / validate / run / constants / compile events up to commutation, from the C13 explorer). Oracle: no actor panics; an unknown sender is never accepted; a further validate is answered with an error; a run sent to a follower that is not in state Validated (before its validation, or after its run) is answered with an error; when the stray command was answered with an error every C13 end-of-history assertion still holds. distinct non-trivial = rejected stray commands by (configuration, party, command, position)".into();
    rep.assumptions = vec!["a stray command that is valid for the current state (answered Ok) is indistinguishable from the legitimate one and is only checked for panics".into()];
    rep.finish()
}
