//! C19 - spilling to temp files is observationally identical to staying in memory.

use std::collections::{HashMap, VecDeque};

use polytune::verif::{Buf, BufDebug};
use serde_json::json;

use crate::circuits::{B, and_chain};
use crate::exec::mix;
use crate::mpcrun::{MpcCase, check_honest, dir_is_empty, party_tmp_dir, run_case};
use crate::util::{Report, Tier, par_map};

#[derive(Clone, Copy, Debug, PartialEq, Eq, Hash, serde::Serialize)]
enum Op {
    Append(usize),
    IterAll,
    IterTake(usize),
    ChunksAll(usize),
    ChunksTake(usize, usize),
}

fn alphabet(c: usize) -> Vec<Op> {
    let mut v = vec![];
    for k in [1, 2, c - 1, c, c + 1, 3 * c] {
        if !v.contains(&Op::Append(k)) && k > 0 {
            v.push(Op::Append(k));
        }
    }
    v.push(Op::IterAll);
    for j in [0, 1, c, c + 1] {
        v.push(Op::IterTake(j));
    }
    v.push(Op::ChunksAll(c));
    for j in [0, 1, 2] {
        v.push(Op::ChunksTake(c, j));
    }
    v.push(Op::ChunksAll(c - 1));
    v
}

#[derive(Clone, Debug, PartialEq, Eq, Hash)]
struct Key {
    chunks: Vec<usize>,
    hidden: Option<(u64, u64, usize)>,
}

struct Trio {
    file: Buf,
    mem: Buf,
    model: Vec<Vec<u64>>,
    next: u64,
}

impl Trio {
    fn new(dir: &std::path::Path) -> Self {
        Trio {
            file: Buf::new(Some(dir), 0).expect("tmp file"),
            mem: Buf::new(None, 0).expect("mem"),
            model: vec![],
            next: 0,
        }
    }
    fn flat(&self) -> Vec<u64> {
        self.model.iter().flatten().copied().collect()
    }
    fn conforming(&self, c: usize) -> bool {
        let n = self.model.len();
        self.model.iter().take(n.saturating_sub(1)).all(|ch| ch.len() == c)
            && self.model.last().map(|l| l.len() <= c).unwrap_or(true)
    }
    /// `apply`, with a panic of the buffer reported as an oracle failure of that operation (it is not a
    /// harness failure)
    fn apply_caught(&mut self, op: Op) -> Result<(), String> {
        match std::panic::catch_unwind(std::panic::AssertUnwindSafe(|| self.apply(op))) {
            Ok(r) => r,
            Err(e) => {
                let msg = e.downcast_ref::<String>().cloned().or_else(|| e.downcast_ref::<&str>().map(|s| s.to_string())).unwrap_or_default();
                Err(format!("panicked: {}", msg.chars().take(160).collect::<String>()))
            }
        }
    }
    /// Applies `op` to both variants and the model; Err = oracle failure.
    fn apply(&mut self, op: Op) -> Result<(), String> {
        match op {
            Op::Append(k) => {
                let chunk: Vec<u64> = (0..k as u64).map(|i| self.next + i).collect();
                self.next += k as u64;
                self.file.write_chunk(&chunk).map_err(|e| format!("file write_chunk: {e}"))?;
                self.mem.write_chunk(&chunk).map_err(|e| format!("mem write_chunk: {e}"))?;
                self.model.push(chunk);
                Ok(())
            }
            Op::IterAll | Op::IterTake(_) => {
                let take = if let Op::IterTake(j) = op { Some(j) } else { None };
                let f = self.file.iter_take(take).map_err(|e| format!("file iter: {e}"))?;
                let m = self.mem.iter_take(take).map_err(|e| format!("mem iter: {e}"))?;
                let mut exp = self.flat();
                if let Some(j) = take {
                    exp.truncate(j);
                }
                if f != exp {
                    return Err(format!("file iter returned {f:?}, expected {exp:?}"));
                }
                if m != exp {
                    return Err(format!("memory iter returned {m:?}, expected {exp:?}"));
                }
                Ok(())
            }
            Op::ChunksAll(c) | Op::ChunksTake(c, _) => {
                let take = if let Op::ChunksTake(_, j) = op { Some(j) } else { None };
                let f = self.file.chunks_take(c, take).map_err(|e| format!("file chunks: {e}"))?;
                let m = self.mem.chunks_take(c, take).map_err(|e| format!("mem chunks: {e}"))?;
                let flat = self.flat();
                // file variant returns exactly the written chunks
                let mut exp_f = self.model.clone();
                let mut exp_m: Vec<Vec<u64>> = flat.chunks(c).map(|x| x.to_vec()).collect();
                if let Some(j) = take {
                    exp_f.truncate(j);
                    exp_m.truncate(j);
                }
                if f != exp_f {
                    return Err(format!("file chunks returned {f:?}, expected the written chunks {exp_f:?}"));
                }
                if m != exp_m {
                    return Err(format!("memory chunks({c}) returned {m:?}, expected {exp_m:?}"));
                }
                if take.is_none() {
                    let ff: Vec<u64> = f.iter().flatten().copied().collect();
                    let mf: Vec<u64> = m.iter().flatten().copied().collect();
                    if ff != mf {
                        return Err("file and memory variants returned different items".into());
                    }
                }
                if self.conforming(c) && f != m {
                    return Err(format!("chunk boundaries differ although all appends but the last had size {c}: file {f:?} memory {m:?}"));
                }
                Ok(())
            }
        }
    }
    fn key(&mut self) -> Key {
        Key {
            chunks: self.model.iter().map(|c| c.len()).collect(),
            hidden: self.file.debug_state(),
        }
    }
}

struct Bfs {
    states: usize,
    transitions: usize,
    max_depth: usize,
    hidden_offsets_not_end: usize,
    distinct_hidden: usize,
    failures: Vec<(Vec<Op>, String)>,
    depth_completed: usize,
    samples: Vec<Vec<Op>>,
}

fn bfs(c: usize, depth: usize, max_appends: usize, dir: &std::path::Path) -> Bfs {
    let alpha = alphabet(c);
    let mut seen: HashMap<Key, Vec<Op>> = HashMap::new();
    let mut frontier: VecDeque<Vec<Op>> = VecDeque::new();
    let mut out = Bfs {
        states: 0,
        transitions: 0,
        max_depth: 0,
        hidden_offsets_not_end: 0,
        distinct_hidden: 0,
        failures: vec![],
        depth_completed: 0,
        samples: vec![],
    };
    let build = |path: &[Op]| -> Result<Trio, (usize, String)> {
        let mut t = Trio::new(dir);
        for (i, op) in path.iter().enumerate() {
            t.apply_caught(*op).map_err(|e| (i, e))?;
        }
        Ok(t)
    };
    let mut hidden_seen = std::collections::HashSet::new();
    {
        let mut t = build(&[]).unwrap();
        seen.insert(t.key(), vec![]);
        frontier.push_back(vec![]);
    }
    while let Some(path) = frontier.pop_front() {
        out.depth_completed = out.depth_completed.max(path.len());
        if path.len() >= depth {
            continue;
        }
        let appends = path.iter().filter(|o| matches!(o, Op::Append(_))).count();
        for op in &alpha {
            if matches!(op, Op::Append(_)) && appends >= max_appends {
                continue;
            }
            let mut p2 = path.clone();
            p2.push(*op);
            out.transitions += 1;
            let mut t = match build(&p2) {
                Ok(t) => t,
                Err((i, e)) => {
                    if out.failures.len() < 10 {
                        out.failures.push((p2[..=i].to_vec(), e));
                    }
                    continue;
                }
            };
            if !dir_is_empty(dir) {
                out.failures.push((p2.clone(), "a directory entry exists while the buffer is alive".into()));
            }
            let k = t.key();
            if let Some((len, pos, buffered)) = k.hidden {
                hidden_seen.insert((len, pos, buffered));
                if pos != len {
                    out.hidden_offsets_not_end += 1;
                }
            }
            if !seen.contains_key(&k) {
                // differential from every new state: append a canary, read everything back
                let canary = t.apply_caught(Op::Append(c)).and_then(|_| t.apply_caught(Op::IterAll)).and_then(|_| t.apply_caught(Op::ChunksAll(c)));
                if let Err(e) = canary {
                    let mut p3 = p2.clone();
                    p3.extend([Op::Append(c), Op::IterAll, Op::ChunksAll(c)]);
                    if out.failures.len() < 10 {
                        out.failures.push((p3, format!("after canary append: {e}")));
                    }
                }
                if out.samples.len() < 3 && p2.len() >= 4 {
                    out.samples.push(p2.clone());
                }
                out.max_depth = out.max_depth.max(p2.len());
                seen.insert(k, p2.clone());
                frontier.push_back(p2);
            }
            drop(t);
            if !dir_is_empty(dir) {
                out.failures.push((path.clone(), "a file remains in the directory after the buffer was dropped".into()));
            }
        }
    }
    out.states = seen.len();
    out.distinct_hidden = hidden_seen.len();
    out
}

/// Bounded-exhaustive sequences *with* reads interleaved at every position (no state merging):
/// every sequence of `len` operations over a reduced alphabet.
fn sequences(c: usize, len: usize, dir: &std::path::Path) -> (usize, Vec<(Vec<Op>, String)>) {
    let alpha = [Op::Append(1), Op::Append(c), Op::Append(c + 1), Op::IterAll, Op::IterTake(1), Op::ChunksAll(c), Op::ChunksTake(c, 1)];
    let mut count = 0;
    let mut fails = vec![];
    let mut idx = vec![0usize; len];
    loop {
        let path: Vec<Op> = idx.iter().map(|i| alpha[*i]).collect();
        count += 1;
        let mut t = Trio::new(dir);
        for (i, op) in path.iter().enumerate() {
            if let Err(e) = t.apply_caught(*op) {
                if fails.len() < 10 {
                    fails.push((path[..=i].to_vec(), e));
                }
                break;
            }
        }
        let mut k = 0;
        loop {
            if k == len {
                return (count, fails);
            }
            idx[k] += 1;
            if idx[k] < alpha.len() {
                break;
            }
            idx[k] = 0;
            k += 1;
        }
    }
}

pub fn main(tier: Tier, seed: u64) -> i32 {
    let mut rep = Report::new("C19", tier, seed, "model_checking");
    if let Err(e) = super::selftest::determinism(seed) {
        rep.machinery(e);
        return rep.finish();
    }
    // tier 1: explicit-state search on the real FileOrMemBuf<u64>
    // chunk size 1500 (12 kB per chunk) makes the file larger than the readers' 8 KiB buffers, so that an
    // abandoned read leaves the shared OS offset in the middle of the file
    let cs: Vec<usize> = if tier.is_thorough() { vec![4, 2, 7, 1500] } else { vec![4, 1500] };
    let results = par_map(&cs, |w, _, c| bfs(*c, 12, if *c > 100 { 3 } else { 5 }, &party_tmp_dir(w, 40 + *c)));
    let mut states = 0;
    let mut transitions = 0;
    for (c, r) in cs.iter().zip(results.iter()) {
        states += r.states;
        transitions += r.transitions;
        rep.set(&format!("bfs_c{c}"), json!({"states": r.states, "transitions": r.transitions, "max_path_len": r.max_depth, "distinct_hidden_states": r.distinct_hidden,
            "states_with_file_offset_not_at_end": r.hidden_offsets_not_end, "depth_bound": 12}));
        for s in &r.samples {
            rep.sample(json!({"chunk_size": c, "path": format!("{s:?}")}));
        }
        for (path, e) in &r.failures {
            let class = if e.contains("directory") { "tmp_file_visible" } else if e.contains("boundaries") { "chunk_boundaries" } else { "items_differ" };
            rep.violation(class, format!("c={c} path={path:?}: {e}"), json!({"kind":"c19_ops","chunk_size":c,"path":format!("{path:?}")}));
        }
        if r.hidden_offsets_not_end == 0 && r.failures.is_empty() {
            rep.set(&format!("note_c{c}"), json!("the OS file offset was at end-of-file in every explored state (the seek-back logic restored it after every read, including abandoned ones)"));
        }
    }
    // unmerged sequences with reads interleaved at every position
    let seq_len = if tier.is_thorough() { 6 } else { 5 };
    let seqs = par_map(&[4usize], |w, _, c| sequences(*c, seq_len, &party_tmp_dir(w, 41)));
    let mut seq_count = 0;
    for (count, fails) in &seqs {
        seq_count += count;
        for (path, e) in fails {
            rep.violation("items_differ_seq", format!("path={path:?}: {e}"), json!({"kind":"c19_ops","chunk_size":4,"path":format!("{path:?}")}));
        }
    }
    rep.set("unmerged_sequences", json!({"length": seq_len, "count": seq_count}));

    // tier 2: through mpc, all tmp_dir masks, same tape
    let mut mpc_runs = 0u64;
    let mut cfgs: Vec<(String, MpcCase)> = vec![];
    for n in [2usize, 3] {
        let big = and_chain(n, if tier.is_thorough() { 2001 } else { 1001 });
        let mut b = B::new(&vec![1; n]);
        let a = b.and(0, 1);
        let small = b.out(&[a]);
        for (name, c) in [("chain", big), ("tiny", small)] {
            if n == 3 && name == "chain" && !tier.is_thorough() {
                continue;
            }
            for mask in 0..(1u32 << n) {
                let inputs = c.inputs_from_mask(0b011);
                cfgs.push((format!("{name}/n{n}"), MpcCase { circ: c.clone(), inputs, p_eval: n - 1, p_out: vec![0, n - 1], tmp_mask: mask }));
            }
        }
    }
    let runs = par_map(&cfgs, |w, _, (_, case)| {
        let r = run_case(case, mix(seed, 19), w);
        let ok = check_honest(case, &r);
        let sig = super::c09::signature(&r, case.n());
        let empty = (0..case.n()).all(|p| dir_is_empty(&party_tmp_dir(w, p)));
        (ok, sig, empty, r.outcomes.clone())
    });
    let mut refs: HashMap<String, usize> = HashMap::new();
    for (i, ((name, case), (ok, sig, empty, outs))) in cfgs.iter().zip(runs.iter()).enumerate() {
        mpc_runs += 1;
        if let Err(e) = ok {
            rep.violation("mpc_wrong_with_tmp_mask", format!("{name} mask={:#b}: {e}", case.tmp_mask), json!({"kind":"mpc_case","case":case}));
        }
        if !empty {
            rep.violation("tmp_file_remains_after_mpc", format!("{name} mask={:#b}", case.tmp_mask), json!({"kind":"mpc_case","case":case}));
        }
        match refs.get(name) {
            None => {
                refs.insert(name.clone(), i);
            }
            Some(ri) => {
                if runs[*ri].1 != *sig || runs[*ri].3 != *outs {
                    rep.violation("mpc_traffic_differs_by_tmp_mask", format!("{name} mask={:#b} differs from mask {:#b}", case.tmp_mask, cfgs[*ri].1.tmp_mask), json!({"kind":"mpc_case","case":case}));
                }
            }
        }
    }
    rep.set("mpc_runs", json!(mpc_runs));
    rep.evaluations = transitions as u64 + seq_count as u64 + mpc_runs;
    rep.distinct_nontrivial = states as u64;
    rep.set("states", json!(states));
    rep.set("transitions", json!(transitions));
    rep.set("traces_validated_against_impl", json!(transitions + seq_count));
    rep.exhaustive = Some(true);
    rep.rule = "breadth-first search over operation sequences on the real file-backed and in-memory FileOrMemBuf<u64> plus a Vec<Vec<u64>> reference model; alphabet append(1,2,c-1,c,c+1,3c) / iter_all / iter_take(0,1,c,c+1) / chunks_all(c) / chunks_take(0,1,2) / chunks_all(c-1); depth 12, bounded appends per path; states deduplicated on (chunk-size list, file length, OS file offset, writer-buffered bytes); every new state additionally checked by 'append canary, read everything'; plus every unmerged sequence of fixed length over a 7-letter alphabet; plus mpc runs under every tmp_dir mask with one tape".into();
    rep.assumptions = vec!["the debug accessor reports the whole hidden state of the file variant (file length, shared OS offset, BufWriter contents)".into(), "temp dirs live on /dev/shm (tmpfs)".into()];
    rep.finish()
}
