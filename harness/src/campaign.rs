//! Fault campaign shared by C02, C03, C04(a) and C07: structure-aware single-field alterations of
//! the messages of one corrupted party, with a fixed consumption rule per (label, field).

use std::sync::Arc;

use serde_json::{Value, json};

use crate::adv::{MsgMut, send_fault, structural};
use crate::exec::{Dir, ExecCfg, Fault, MsgRec, Outcome, RunResult, mix, run_default};
use crate::mpcrun::{MpcCase, check_honest, mpc_body};
use crate::schema::{NodeMut, Val, decode_msg, encode_vec, msg_type, validate_transcript};

#[derive(Clone, Copy, Debug, PartialEq, Eq)]
pub enum Rule {
    /// any alteration must end in Err at the recipient
    Always,
    /// single-branch alteration of a conditionally read data field: Err, unless everything the
    /// honest parties send and return is identical to the honest run (then trivial)
    Selected,
    /// not read by any honest party by design (counted as trivial, never as a pass)
    Unread,
    /// a consistent change of the corrupted party's own masked input is an input substitution
    Substitution,
}

pub struct Config {
    pub name: String,
    pub case: MpcCase,
    pub corrupted: usize,
    pub seed: u64,
    pub honest: RunResult<Vec<bool>>,
}

pub fn make_config(case: MpcCase, corrupted: usize, seed: u64, probes: bool) -> Result<Config, String> {
    let mut ec = ExecCfg::new(case.n(), seed);
    ec.record_probes = probes;
    let honest = run_default(&ec, mpc_body(&case, 820));
    check_honest(&case, &honest).map_err(|e| format!("honest base run failed: {e}"))?;
    validate_transcript(&honest.msgs)?;
    Ok(Config {
        name: format!("n{}/corrupt{}/eval{}/out{:?}", case.n(), corrupted, case.p_eval, case.p_out),
        case,
        corrupted,
        seed,
        honest,
    })
}

pub const ONLINE_LABELS: [&str; 7] = ["wire shares", "masked inputs", "broadcast masked inputs", "labels", "preprocessed gates", "output wire shares", "lambda"];

pub fn is_online(label: &str) -> bool {
    ONLINE_LABELS.contains(&label)
}

#[derive(Clone)]
pub struct FCase {
    pub cfg: usize,
    /// indices into honest.msgs of the altered messages (one, or one per recipient)
    pub msgs: Vec<usize>,
    pub muts: Vec<MsgMut>,
    pub label: String,
    pub field: String,
    pub rule: Rule,
    pub to_all: bool,
    pub desc: String,
}

/// Registers (input wires) whose label reaches an AND-gate operand through free gates.
pub fn wires_feeding_and(c: &crate::circuits::Circ) -> Vec<bool> {
    use crate::circuits::G;
    // taint[r] = set of input wires whose label is xor-ed into register r's label (as bitmask)
    let mut taint: Vec<u128> = vec![0; c.max_reg];
    let mut feeds = vec![false; c.max_reg];
    for (o, g) in &c.insts {
        let t = match *g {
            G::In(..) => 1u128 << (*o as u128 % 128),
            G::Xor(a, b) => taint[a as usize] ^ taint[b as usize],
            G::Not(a) => taint[a as usize],
            G::And(a, b) => {
                let used = taint[a as usize] | taint[b as usize];
                for (w, f) in feeds.iter_mut().enumerate() {
                    if w < 128 && (used >> w) & 1 == 1 {
                        *f = true;
                    }
                }
                0
            }
        };
        taint[*o as usize] = t;
    }
    feeds
}

fn field_name(label: &str, path: &[usize], node: &NodeMut) -> String {
    let tail: Vec<String> = path.iter().skip(1).map(|p| p.to_string()).collect();
    let extra = match node {
        NodeMut::XorByte(k) if label == "fashare ver" => if *k == 0 { ":bit".to_string() } else { ":mac".to_string() },
        _ => String::new(),
    };
    format!("{}[{}]{}", label, tail.join("."), extra)
}

/// Consumption rule of a (label, path, mutation).
pub fn rule_for(label: &str, path: &[usize], node: &NodeMut, n: usize, to_all: bool) -> Rule {
    let f1 = path.get(1).copied();
    match label {
        "CO_OT_c0c1" => Rule::Selected,
        "ALSZ_OT_setup" | "KOS_OT_corr" => Rule::Selected,
        "fashare comm" => if f1 == Some(2) { Rule::Always } else { Rule::Selected },
        "haand" => Rule::Selected,
        "flaand" => if f1 == Some(1) { Rule::Selected } else { Rule::Always },
        "preprocessed gates" => Rule::Selected,
        "labels" => Rule::Always, // refined per wire in gen_cases (wires not feeding an AND gate are Unread)
        "masked inputs" => if n >= 3 && !to_all { Rule::Always } else { Rule::Substitution },
        _ => {
            let _ = node;
            Rule::Always
        }
    }
}

pub fn gen_cases(cfgs: &[Config], cap: usize, full_menu: bool, label_filter: &dyn Fn(&str) -> bool, include_counts: bool) -> Result<Vec<FCase>, String> {
    let mut out = vec![];
    for (ci, cfg) in cfgs.iter().enumerate() {
        let n = cfg.case.n();
        let feeds = wires_feeding_and(&cfg.case.circ);
        let sent: Vec<(usize, &MsgRec)> = cfg.honest.msgs.iter().enumerate().filter(|(_, m)| m.from == cfg.corrupted && label_filter(&m.label)).collect();
        for (mi, m) in &sent {
            let ty = msg_type(&m.label).ok_or("no schema")?;
            let val = decode_msg(&m.label, &m.bytes)?;
            let muts = structural(&ty, &val, cap, false, &[]);
            for mm in muts {
                let (Some(path), Some(node)) = (mm.path.clone(), mm.node.clone()) else { continue };
                if mm.malformed && !include_counts {
                    continue;
                }
                if !full_menu && matches!(node, NodeMut::SetZero | NodeMut::SetOnes | NodeMut::VecSwapFirstLast) {
                    continue;
                }
                // one recipient
                let field = field_name(&m.label, &path, &node);
                let mut r1 = rule_for(&m.label, &path, &node, n, false);
                if m.label == "labels" && !path.first().and_then(|p0| feeds.get(*p0)).copied().unwrap_or(false) {
                    r1 = Rule::Unread;
                }
                out.push(FCase {
                    cfg: ci,
                    msgs: vec![*mi],
                    muts: vec![mm.clone()],
                    label: m.label.clone(),
                    field: field.clone(),
                    rule: r1,
                    to_all: false,
                    desc: format!("{}: {:?} #{} {}->{}: {}", cfg.name, m.label, m.ord, m.from, m.to, mm.detail),
                });
                // consistently to all recipients (n >= 3): the same node mutation applied to the
                // message with the same label and ordinal to every other recipient
                let bcast_field = matches!(m.label.as_str(), "flaand" | "fabitn") && path.get(1) == Some(&0);
                let same_to_all = sent.iter().filter(|(_, m2)| m2.label == m.label && m2.ord == m.ord).all(|(_, m2)| m2.bytes == m.bytes);
                if n >= 3 && m.to == (0..n).find(|p| *p != cfg.corrupted).unwrap() && (same_to_all || bcast_field) {
                    let mut idxs = vec![*mi];
                    let mut mms = vec![mm.clone()];
                    let mut ok = true;
                    for (mj, m2) in &sent {
                        if m2.to != m.to && m2.label == m.label && m2.ord == m.ord {
                            let v2 = decode_msg(&m2.label, &m2.bytes)?;
                            let mut v3 = v2.clone();
                            if crate::schema::apply(&ty, &mut v3, &path, &node) {
                                idxs.push(*mj);
                                mms.push(MsgMut { bytes: Arc::new(encode_vec(&v3)), ..mm.clone() });
                            } else {
                                ok = false;
                            }
                        }
                    }
                    if ok && idxs.len() == n - 1 {
                        out.push(FCase {
                            cfg: ci,
                            msgs: idxs,
                            muts: mms,
                            label: m.label.clone(),
                            field: field.clone(),
                            rule: rule_for(&m.label, &path, &node, n, true),
                            to_all: true,
                            desc: format!("{}: {:?} #{} {}->all: {}", cfg.name, m.label, m.ord, m.from, mm.detail),
                        });
                    }
                }
            }
            // paired variants: both branches altered in the same message
            let paired: Option<Vec<(Vec<usize>, Vec<usize>)>> = match (m.label.as_str(), &val) {
                ("CO_OT_c0c1", Val::Vec(xs)) | ("haand", Val::Vec(xs)) => Some(pick(xs.len(), cap).into_iter().map(|i| (vec![i, 0], vec![i, 1])).collect()),
                ("fashare comm", Val::Vec(xs)) => Some(pick(xs.len(), cap).into_iter().map(|i| (vec![i, 0], vec![i, 1])).collect()),
                _ => None,
            };
            if let Some(pairs) = paired {
                for (pa, pb) in pairs {
                    let mut v2 = val.clone();
                    let node = if m.label == "haand" { NodeMut::FlipBool } else { NodeMut::XorLow };
                    if crate::schema::apply(&ty, &mut v2, &pa, &node) && crate::schema::apply(&ty, &mut v2, &pb, &node) {
                        out.push(FCase {
                            cfg: ci,
                            msgs: vec![*mi],
                            muts: vec![MsgMut { class: "struct:paired".into(), detail: format!("both branches altered at {pa:?}/{pb:?}"), bytes: Arc::new(encode_vec(&v2)), malformed: false, path: Some(pa.clone()), node: Some(node), dynamic: None }],
                            label: m.label.clone(),
                            field: format!("{}[paired]", m.label),
                            rule: Rule::Always,
                            to_all: false,
                            desc: format!("{}: {:?} #{} {}->{}: both branches altered at index {}", cfg.name, m.label, m.ord, m.from, m.to, pa[0]),
                        });
                    }
                }
            }
        }
    }
    Ok(out)
}

fn pick(n: usize, cap: usize) -> Vec<usize> {
    if n <= cap {
        (0..n).collect()
    } else {
        let mut v = vec![0, n / 2, n - 1];
        v.dedup();
        v
    }
}

#[derive(Clone, Debug)]
pub struct FResult {
    /// an honest recipient of an altered message that, after receiving it, went on to send a message
    /// of a later protocol phase: (party, altered label, later label)
    pub proceeded: Option<(usize, String, String)>,
    /// per party: (kind, error text or output bits)
    pub outcomes: Vec<(String, String)>,
    /// everything the honest parties sent and returned equals the honest run
    pub identical: bool,
    pub faults_hit: bool,
    pub deadlock: bool,
}

pub fn faults_of(cfg: &Config, c: &FCase) -> Vec<Fault> {
    c.msgs
        .iter()
        .zip(&c.muts)
        .map(|(mi, mm)| {
            let mut f = send_fault(&cfg.honest.msgs[*mi], mm.bytes.clone());
            if let Some(d) = &mm.dynamic {
                f.mutation = crate::exec::Mutation::Fn(d.clone());
            }
            f
        })
        .collect()
}

pub fn run_faults(cfg: &Config, faults: Vec<Fault>, taps: Vec<crate::hooks::TapSpec>, probes: bool, worker: usize) -> (FResult, RunResult<Vec<bool>>) {
    let n = cfg.case.n();
    let mut ec = ExecCfg::new(n, cfg.seed);
    ec.faults = faults;
    ec.taps = taps;
    ec.record_probes = probes;
    let r = run_default(&ec, mpc_body(&cfg.case, 830 + worker));
    let outcomes: Vec<(String, String)> = r
        .outcomes
        .iter()
        .map(|o| match o {
            Outcome::Ok(v) => ("Ok".to_string(), crate::util::bits(v)),
            Outcome::Err(e) => ("Err".to_string(), e.chars().take(120).collect()),
            Outcome::Panic(e) => ("Panic".to_string(), e.chars().take(120).collect()),
            Outcome::Crashed => ("Hang".to_string(), String::new()),
        })
        .collect();
    let honest_sent = |rr: &RunResult<Vec<bool>>| -> Vec<(usize, usize, Arc<Vec<u8>>)> { rr.msgs.iter().filter(|m| m.from != cfg.corrupted && !m.label.starts_with("broadcast ")).map(|m| (m.from, m.to, m.bytes.clone())).collect() };
    let identical = honest_sent(&r) == honest_sent(&cfg.honest)
        && (0..n).filter(|p| *p != cfg.corrupted).all(|p| r.outcomes[p] == cfg.honest.outcomes[p]);
    // "the computation never proceeds on unverified correlated randomness": once an honest party has
    // received an altered message of phase k, it must not send anything of a phase > k
    let mut proceeded = None;
    for f in ec.faults.iter().filter(|f| f.dir == Dir::Send && f.party == cfg.corrupted) {
        let Some(k) = phase_of(&f.label) else { continue };
        let Some(mi) = r.msgs.iter().position(|m| m.from == f.party && m.to == f.peer && m.label == f.label && m.ord == f.ord) else { continue };
        let Some(t) = r.ops.iter().find(|o| o.party == f.peer && o.dir == Dir::Recv && o.msg == Some(mi)).and_then(|o| o.complete_t) else { continue };
        if let Some(o) = r.ops.iter().find(|o| o.party == f.peer && o.dir == Dir::Send && o.issue_t > t && phase_of(&o.label).is_some_and(|k2| k2 > k)) {
            proceeded = Some((f.peer, f.label.clone(), o.label.clone()));
            break;
        }
    }
    let fr = FResult { proceeded, outcomes, identical, faults_hit: r.faults_hit.iter().any(|h| *h) || r.faults_hit.is_empty(), deadlock: r.deadlock };
    (fr, r)
}

/// Protocol phase of a message label (preprocessing only): a check belonging to phase k must have
/// passed before anything of a later phase is sent.
pub fn phase_of(label: &str) -> Option<u8> {
    let l = label.strip_prefix("broadcast ").unwrap_or(label);
    Some(match l {
        "RNG comm" | "RNG ver" => 0,
        "CO_OT_s" | "CO_OT_r" | "CO_OT_c0c1" | "ALSZ_OT_setup" | "KOS_OT_x_t0_t1" | "KOS_OT_corr" | "fabitn" => 1,
        "fashare comm" | "fashare ver" | "fashare di_bi" => 2,
        "haand" | "flaand" | "flaand comm" | "flaand hash" => 3,
        "dvalue" => 4,
        "faand" => 5,
        "preprocessed gates" | "wire shares" | "masked inputs" | "labels" | "output wire shares" | "lambda" => 6,
        _ => return None,
    })
}

pub fn recipients(cfg: &Config, c: &FCase) -> Vec<usize> {
    c.msgs.iter().map(|mi| cfg.honest.msgs[*mi].to).collect()
}

pub fn replay_json(cfg: &Config, c: &FCase) -> Value {
    json!({"kind": "fault", "case": cfg.case, "corrupted": cfg.corrupted, "seed": cfg.seed,
        "faults": c.msgs.iter().zip(&c.muts).map(|(mi, mm)| { let m = &cfg.honest.msgs[*mi]; json!({"to": m.to, "label": m.label, "ord": m.ord, "mutation": mm.detail, "bytes_hex": mm.bytes.iter().map(|b| format!("{b:02x}")).collect::<String>()}) }).collect::<Vec<_>>() })
}

pub fn tape_seed(seed: u64, k: u64) -> u64 {
    mix(seed, 0xfa17 + k)
}

// ---------------------------------------------------------------------------------------------
// Detection judge shared by C03 and C04(a)
// ---------------------------------------------------------------------------------------------

pub fn class_of(c: &FCase) -> String {
    let p1 = c.muts[0].path.as_ref().and_then(|p| p.get(1).copied());
    let extra = if c.field.ends_with("[choice_bit]") { ":choice_bit" } else if c.field.ends_with("[chain]") { ":chain" } else if c.field.ends_with("[pair]") { ":pair" } else if c.field.ends_with(":bit") { ":bit" } else if c.field.ends_with(":mac") { ":mac" } else if c.field.ends_with("[paired]") { ":paired" } else { "" };
    let kind = c.muts[0].node.as_ref().map(|n| if n.changes_count() { n.name() } else { String::new() }).unwrap_or_default();
    format!("{}[{}]{}{}{}", c.label, p1.map(|x| x.to_string()).unwrap_or_default(), extra, if kind.is_empty() { "" } else { ":" }, kind)
}

/// Labels whose alteration the honest recipient must detect by a check of its own (it holds the
/// key / commitment / challenge needed), as opposed to values only the sender's side could verify.
pub fn direct_detection_expected(label: &str) -> bool {
    !matches!(label, "KOS_OT_corr" | "CO_OT_s" | "CO_OT_r" | "CO_OT_c0c1" | "haand" | "masked inputs")
}

pub struct Judged {
    pub evaluations: u64,
    pub nontrivial: std::collections::HashSet<String>,
    pub trivial: u64,
    pub detected: u64,
}

/// Runs every case and applies the detection oracle: every honest recipient of a consumed bad value
/// returns Err; no honest party panics or hangs.
pub fn judge_detection(rep: &mut crate::util::Report, cfgs: &[Config], cases: &[FCase], prop: &str) -> Judged {
    // a wall budget only stops the enumeration (reported as a cap), it never decides a verdict
    let budget = crate::util::Budget::new(if rep.tier.is_thorough() { 1500.0 } else { 120.0 });
    let stop = std::sync::atomic::AtomicBool::new(false);
    let raw = crate::util::par_map_until(
        cases,
        |w, _, c| {
            if budget.exhausted() {
                stop.store(true, std::sync::atomic::Ordering::Relaxed);
            }
            if matches!(c.rule, Rule::Unread | Rule::Substitution) {
                return None;
            }
            let cfg = &cfgs[c.cfg];
            Some(run_faults(cfg, faults_of(cfg, c), vec![], false, w).0)
        },
        &stop,
    );
    let not_run = raw.iter().filter(|r| r.is_none()).count();
    if not_run > 0 {
        rep.set("cases_not_run_wall_cap", serde_json::json!(not_run));
        rep.exhaustive = Some(false);
    }
    let results: Vec<Option<FResult>> = raw.into_iter().map(|r| r.flatten()).collect();
    let mut j = Judged { evaluations: 0, nontrivial: Default::default(), trivial: 0, detected: 0 };
    for (c, r) in cases.iter().zip(results.iter()) {
        let cfg = &cfgs[c.cfg];
        let Some(r) = r else {
            j.trivial += 1;
            continue;
        };
        j.evaluations += 1;
        if std::env::var("PVX_DEBUG_LABEL").is_ok_and(|l| l == c.label) {
            eprintln!("DEBUG {} rule={:?} -> {:?} proceeded={:?}", c.desc, c.rule, r.outcomes, r.proceeded);
        }
        if !r.faults_hit {
            rep.machinery(format!("fault never applied: {}", c.desc));
            continue;
        }
        let n = cfg.case.n();
        let mut bad = None;
        for p in (0..n).filter(|p| *p != cfg.corrupted) {
            match r.outcomes[p].0.as_str() {
                "Panic" => bad = Some(format!("panic:{}", class_of(c))),
                "Hang" => bad = Some(format!("hang:{}", class_of(c))),
                _ => {}
            }
        }
        if bad.is_none() {
            let recips = recipients(cfg, c);
            let all_err = recips.iter().all(|p| r.outcomes[*p].0 == "Err");
            // detection only because the corrupted party's own (honest) code aborted and closed its
            // endpoints: the honest recipient itself verified nothing
            let closed_only = all_err && recips.iter().all(|p| r.outcomes[*p].1.contains("Closed"));
            if closed_only {
                *rep.extra.entry("err_only_through_peer_abort".into()).or_insert(json!(0)) = json!(rep.extra.get("err_only_through_peer_abort").and_then(|v| v.as_u64()).unwrap_or(0) + 1);
                let key = format!("peer_abort_only:{}", class_of(c));
                if direct_detection_expected(&c.label) && c.rule == Rule::Always {
                    bad = Some(key);
                }
            }
        }
        if bad.is_none() {
            let recips = recipients(cfg, c);
            let all_err = recips.iter().all(|p| r.outcomes[*p].0 == "Err");
            match c.rule {
                Rule::Always => {
                    if !all_err {
                        bad = Some(format!("undetected:{}", class_of(c)));
                    }
                }
                Rule::Selected => {
                    if !all_err {
                        if r.identical {
                            j.trivial += 1;
                            continue;
                        }
                        bad = Some(format!("undetected:{}", class_of(c)));
                    }
                }
                _ => {}
            }
        }
        if bad.is_none()
            && c.rule == Rule::Always
            && prop == "C04"
            && direct_detection_expected(&c.label)
            && let Some((p, l1, l2)) = &r.proceeded
        {
            bad = Some(format!("proceeded_on_unverified:{}", class_of(c)));
            rep.extra.insert("last_proceeded".into(), json!(format!("party {p} received the altered {l1:?} and later sent {l2:?}")));
        }
        match bad {
            Some(class) => {
                let outs: Vec<String> = r.outcomes.iter().enumerate().map(|(p, o)| format!("p{p}:{}({})", o.0, o.1.chars().take(50).collect::<String>())).collect();
                rep.violation(class, format!("{} [{}] -> {}", c.desc, if c.to_all { "to all" } else { "to one" }, outs.join(" ")), replay_json(cfg, c));
            }
            None => {
                j.detected += 1;
                j.nontrivial.insert(format!("{}|{}|{}|{}", cfg.name, class_of(c), c.to_all, c.muts[0].path.as_ref().and_then(|p| p.first().copied()).unwrap_or(0)));
                if rep.samples.len() < 5 && j.detected % 37 == 1 {
                    rep.sample(json!({"fault": c.desc, "rule": format!("{:?}", c.rule), "honest_outcomes": r.outcomes.iter().enumerate().filter(|(p, _)| *p != cfg.corrupted).map(|(p, o)| format!("p{p}: {} {}", o.0, o.1)).collect::<Vec<_>>()}));
                }
            }
        }
    }
    let _ = prop;
    j
}

/// A party that uses a different choice bit x_i towards one peer than towards the others (or than it
/// uses itself): bit i is flipped in every column of the OT-extension matrix it sends to that peer.
/// The per-column consistency check of KOS cannot see this (all columns agree); it is the aBit test
/// that must reject it, whatever the index.  Indices: both ends of the first bytes, both sides of the
/// 64-bit word boundaries the test unpacks its coefficients from, the middle and the last full byte
/// (bit 0 and bit 7 of each byte, so that either bit order inside a byte is covered).
pub fn gen_choice_bit_cases(cfgs: &[Config]) -> Result<Vec<FCase>, String> {
    let mut out = vec![];
    for (ci, cfg) in cfgs.iter().enumerate() {
        for (mi, m) in cfg.honest.msgs.iter().enumerate().filter(|(_, m)| m.from == cfg.corrupted && m.label == "ALSZ_OT_setup") {
            // number of OTs of this session = length of the correction vector coming back
            let Some(corr) = cfg.honest.msgs.iter().find(|c| c.from == m.to && c.to == m.from && c.label == "KOS_OT_corr" && c.ord == m.ord) else { continue };
            let Val::Vec(cv) = decode_msg(&corr.label, &corr.bytes)? else { continue };
            let l = cv.len();
            let Val::Vec(cols) = decode_msg(&m.label, &m.bytes)? else { continue };
            let mut bytes_idx: Vec<usize> = vec![0, 7, 8, l / 16, (l / 8).saturating_sub(1)];
            if l >= 64 {
                bytes_idx.push(((l - 64) / 64) * 8 + 7);
            }
            bytes_idx.retain(|b| 8 * b + 7 < l);
            bytes_idx.sort();
            bytes_idx.dedup();
            for b in bytes_idx {
                for bit in [0u8, 7] {
                    let mut v2 = cols.clone();
                    let mut ok = true;
                    for col in v2.iter_mut() {
                        match col {
                            Val::Vec(bs) if b < bs.len() => {
                                if let Val::U8(x) = &mut bs[b] {
                                    *x ^= 1 << bit;
                                } else {
                                    ok = false;
                                }
                            }
                            _ => ok = false,
                        }
                    }
                    if !ok {
                        continue;
                    }
                    out.push(FCase {
                        cfg: ci,
                        msgs: vec![mi],
                        muts: vec![MsgMut { class: "struct:choice_bit".into(), detail: format!("bit {bit} of byte {b} flipped in all {} columns (choice bit {} or {} of {l})", cols.len(), 8 * b + bit as usize, 8 * b + 7 - bit as usize), bytes: Arc::new(encode_vec(&Val::Vec(v2))), malformed: false, path: Some(vec![b]), node: None, dynamic: None }],
                        label: m.label.clone(),
                        field: "ALSZ_OT_setup[choice_bit]".into(),
                        rule: Rule::Always,
                        to_all: false,
                        desc: format!("{}: \"ALSZ_OT_setup\" #{} {}->{}: choice bit at byte {b} bit {bit} flipped towards this peer only", cfg.name, m.ord, m.from, m.to),
                    });
                }
            }
        }
    }
    Ok(out)
}

/// Pairs of bit flips inside one message (two lies that could cancel in an accumulated check).
pub fn gen_pair_cases(cfgs: &[Config], labels: &[&str], max_bools: usize) -> Result<Vec<FCase>, String> {
    let mut out = vec![];
    for (ci, cfg) in cfgs.iter().enumerate() {
        let sent: Vec<(usize, &MsgRec)> = cfg.honest.msgs.iter().enumerate().filter(|(_, m)| m.from == cfg.corrupted && labels.contains(&m.label.as_str())).collect();
        for (mi, m) in &sent {
            let ty = msg_type(&m.label).ok_or("no schema")?;
            let val = decode_msg(&m.label, &m.bytes)?;
            let mut bools: Vec<Vec<usize>> = crate::schema::paths(&ty, &val, usize::MAX)
                .into_iter()
                .filter(|p| matches!(crate::schema::get(&val, p), Some(Val::Bool(_))))
                .collect();
            if bools.len() > max_bools {
                // keep the first and the last few
                let tail = bools.split_off(bools.len() - max_bools / 3);
                bools.truncate(max_bools - tail.len());
                bools.extend(tail);
            }
            for a in 0..bools.len() {
                for b in a + 1..bools.len() {
                    let mut v2 = val.clone();
                    if crate::schema::apply(&ty, &mut v2, &bools[a], &NodeMut::FlipBool) && crate::schema::apply(&ty, &mut v2, &bools[b], &NodeMut::FlipBool) {
                        out.push(FCase {
                            cfg: ci,
                            msgs: vec![*mi],
                            muts: vec![MsgMut { class: "struct:pair".into(), detail: format!("bits flipped at {:?} and {:?}", bools[a], bools[b]), bytes: Arc::new(encode_vec(&v2)), malformed: false, path: Some(bools[a].clone()), node: Some(NodeMut::FlipBool), dynamic: None }],
                            label: m.label.clone(),
                            field: format!("{}[pair]", m.label),
                            rule: Rule::Always,
                            to_all: false,
                            desc: format!("{}: {:?} #{} {}->{}: two bits flipped at {:?} and {:?}", cfg.name, m.label, m.ord, m.from, m.to, bools[a], bools[b]),
                        });
                    }
                }
            }
        }
    }
    Ok(out)
}
