//! Message schema table (bincode legacy encodings keyed by the phase label the engine passes to
//! the channel), a value-tree decoder/encoder, and the structure-aware mutation menu.

use serde_json::{Value, json};

#[derive(Clone, Debug, PartialEq)]
pub enum Ty {
    Bool,
    U8,
    U32,
    U128,
    /// fixed number of raw bytes (arrays, Block, commitments)
    Raw(usize),
    Opt(Box<Ty>),
    Vec(Box<Ty>),
    Tup(Vec<Ty>),
}

#[derive(Clone, Debug, PartialEq)]
pub enum Val {
    Bool(bool),
    U8(u8),
    U32(u32),
    U128(u128),
    Raw(Vec<u8>),
    Opt(Option<Box<Val>>),
    Vec(Vec<Val>),
    Tup(Vec<Val>),
}

fn b16() -> Ty {
    Ty::Raw(16)
}
fn b32() -> Ty {
    Ty::Raw(32)
}
fn vecof(t: Ty) -> Ty {
    Ty::Vec(Box::new(t))
}
fn opt(t: Ty) -> Ty {
    Ty::Opt(Box::new(t))
}

/// Item type of the message sent under `label` (the message itself is `Vec<item>`).
pub fn item_type(label: &str) -> Option<Ty> {
    if label.starts_with("broadcast ") {
        return Some(opt(Ty::U128));
    }
    Some(match label {
        "RNG comm" => b32(),
        "RNG ver" => Ty::U8,
        "CO_OT_s" => Ty::U8,
        "CO_OT_r" => vecof(Ty::U8),
        "CO_OT_c0c1" => Ty::Tup(vec![b16(), b16()]),
        "ALSZ_OT_setup" => vecof(Ty::U8),
        "KOS_OT_x_t0_t1" => Ty::Tup(vec![b16(), b16(), b16()]),
        "KOS_OT_corr" => b16(),
        "fabitn" => Ty::Tup(vec![Ty::Bool, Ty::U128]),
        "fashare comm" => Ty::Tup(vec![b32(), b32(), b32()]),
        "fashare ver" => vecof(Ty::U8),
        "fashare di_bi" => Ty::U128,
        "haand" => Ty::Tup(vec![Ty::Bool, Ty::Bool]),
        "flaand" => Ty::Tup(vec![Ty::Bool, Ty::U128]),
        "flaand comm" => b32(),
        "flaand hash" => Ty::U128,
        "dvalue" => Ty::Tup(vec![vecof(Ty::Bool), vecof(Ty::U128)]),
        "faand" => Ty::Tup(vec![Ty::Bool, Ty::Bool, Ty::U128, Ty::U128]),
        "preprocessed gates" => Ty::Tup(vec![vecof(Ty::U8), vecof(Ty::U8), vecof(Ty::U8), vecof(Ty::U8)]),
        "wire shares" => opt(Ty::Tup(vec![Ty::Bool, Ty::U128])),
        "masked inputs" => opt(Ty::Bool),
        "labels" => opt(Ty::U128),
        "output wire shares" => opt(Ty::Tup(vec![Ty::Bool, Ty::U128])),
        "lambda" => opt(Ty::Tup(vec![Ty::Bool, Ty::U128])),
        _ => return None,
    })
}

pub fn msg_type(label: &str) -> Option<Ty> {
    item_type(label).map(vecof)
}

pub struct Dec<'a> {
    b: &'a [u8],
    pos: usize,
}

impl<'a> Dec<'a> {
    fn take(&mut self, n: usize) -> Result<&'a [u8], String> {
        if self.pos + n > self.b.len() {
            return Err(format!("unexpected end at {} (+{n}) of {}", self.pos, self.b.len()));
        }
        let s = &self.b[self.pos..self.pos + n];
        self.pos += n;
        Ok(s)
    }
}

fn dec(d: &mut Dec, ty: &Ty) -> Result<Val, String> {
    Ok(match ty {
        Ty::Bool => match d.take(1)?[0] {
            0 => Val::Bool(false),
            1 => Val::Bool(true),
            x => return Err(format!("bool byte {x}")),
        },
        Ty::U8 => Val::U8(d.take(1)?[0]),
        Ty::U32 => Val::U32(u32::from_le_bytes(d.take(4)?.try_into().unwrap())),
        Ty::U128 => Val::U128(u128::from_le_bytes(d.take(16)?.try_into().unwrap())),
        Ty::Raw(n) => Val::Raw(d.take(*n)?.to_vec()),
        Ty::Opt(t) => match d.take(1)?[0] {
            0 => Val::Opt(None),
            1 => Val::Opt(Some(Box::new(dec(d, t)?))),
            x => return Err(format!("option tag {x}")),
        },
        Ty::Vec(t) => {
            let n = u64::from_le_bytes(d.take(8)?.try_into().unwrap()) as usize;
            if n > d.b.len() {
                return Err(format!("vec length {n} exceeds message size"));
            }
            let mut v = Vec::with_capacity(n);
            for _ in 0..n {
                v.push(dec(d, t)?);
            }
            Val::Vec(v)
        }
        Ty::Tup(ts) => {
            let mut v = vec![];
            for t in ts {
                v.push(dec(d, t)?);
            }
            Val::Tup(v)
        }
    })
}

pub fn decode(bytes: &[u8], ty: &Ty) -> Result<Val, String> {
    let mut d = Dec { b: bytes, pos: 0 };
    let v = dec(&mut d, ty)?;
    if d.pos != bytes.len() {
        return Err(format!("{} trailing bytes", bytes.len() - d.pos));
    }
    Ok(v)
}

pub fn encode(v: &Val, out: &mut Vec<u8>) {
    match v {
        Val::Bool(b) => out.push(*b as u8),
        Val::U8(x) => out.push(*x),
        Val::U32(x) => out.extend(x.to_le_bytes()),
        Val::U128(x) => out.extend(x.to_le_bytes()),
        Val::Raw(r) => out.extend(r),
        Val::Opt(None) => out.push(0),
        Val::Opt(Some(x)) => {
            out.push(1);
            encode(x, out)
        }
        Val::Vec(xs) => {
            out.extend((xs.len() as u64).to_le_bytes());
            for x in xs {
                encode(x, out)
            }
        }
        Val::Tup(xs) => {
            for x in xs {
                encode(x, out)
            }
        }
    }
}

pub fn encode_vec(v: &Val) -> Vec<u8> {
    let mut o = vec![];
    encode(v, &mut o);
    o
}

pub fn decode_msg(label: &str, bytes: &[u8]) -> Result<Val, String> {
    let ty = msg_type(label).ok_or_else(|| format!("no schema for label {label:?}"))?;
    decode(bytes, &ty)
}

/// A path into a value tree: child indices (for Opt: 0 = the inner value).
pub type Path = Vec<usize>;

pub fn get<'a>(v: &'a Val, p: &[usize]) -> Option<&'a Val> {
    if p.is_empty() {
        return Some(v);
    }
    match v {
        Val::Vec(xs) | Val::Tup(xs) => xs.get(p[0]).and_then(|c| get(c, &p[1..])),
        Val::Opt(Some(x)) if p[0] == 0 => get(x, &p[1..]),
        _ => None,
    }
}

pub fn get_mut<'a>(v: &'a mut Val, p: &[usize]) -> Option<&'a mut Val> {
    if p.is_empty() {
        return Some(v);
    }
    match v {
        Val::Vec(xs) | Val::Tup(xs) => xs.get_mut(p[0]).and_then(|c| get_mut(c, &p[1..])),
        Val::Opt(Some(x)) if p[0] == 0 => get_mut(x, &p[1..]),
        _ => None,
    }
}

fn default_of(ty: &Ty) -> Val {
    match ty {
        Ty::Bool => Val::Bool(false),
        Ty::U8 => Val::U8(0),
        Ty::U32 => Val::U32(0),
        Ty::U128 => Val::U128(0),
        Ty::Raw(n) => Val::Raw(vec![0; *n]),
        Ty::Opt(_) => Val::Opt(None),
        Ty::Vec(_) => Val::Vec(vec![]),
        Ty::Tup(ts) => Val::Tup(ts.iter().map(default_of).collect()),
    }
}

pub fn type_at<'a>(ty: &'a Ty, v: &Val, p: &[usize]) -> Option<&'a Ty> {
    if p.is_empty() {
        return Some(ty);
    }
    match (ty, v) {
        (Ty::Vec(t), Val::Vec(xs)) => xs.get(p[0]).and_then(|c| type_at(t, c, &p[1..])),
        (Ty::Tup(ts), Val::Tup(xs)) => ts.get(p[0]).and_then(|t| xs.get(p[0]).and_then(|c| type_at(t, c, &p[1..]))),
        (Ty::Opt(t), Val::Opt(Some(x))) if p[0] == 0 => type_at(t, x, &p[1..]),
        _ => None,
    }
}

/// One structure-aware mutation of a node.
#[derive(Clone, Debug, PartialEq)]
pub enum NodeMut {
    FlipBool,
    XorLow,       // xor integer / first byte with 1
    XorTop,       // xor top bit / last byte with 0x80
    SetZero,
    SetOnes,
    XorWith(u128), // xor a U128 / Raw(16) with a harness-known value
    SomeToNone,
    NoneToSomeDefault,
    VecEmpty,
    VecDropLast,
    VecDupLast,
    VecSwapFirstLast,
    /// xor byte k of a Raw / Vec<U8> with 1
    XorByte(usize),
}

impl NodeMut {
    pub fn changes_count(&self) -> bool {
        matches!(
            self,
            NodeMut::SomeToNone | NodeMut::NoneToSomeDefault | NodeMut::VecEmpty | NodeMut::VecDropLast | NodeMut::VecDupLast
        )
    }
    pub fn name(&self) -> String {
        match self {
            NodeMut::XorWith(_) => "XorWith".into(),
            NodeMut::XorByte(k) => format!("XorByte{k}"),
            o => format!("{o:?}"),
        }
    }
}

/// Applies `m` at `path`; returns false if not applicable or a no-op.
pub fn apply(root_ty: &Ty, v: &mut Val, path: &[usize], m: &NodeMut) -> bool {
    let ty = match type_at(root_ty, v, path) {
        Some(t) => t.clone(),
        None => return false,
    };
    let Some(node) = get_mut(v, path) else { return false };
    let before = node.clone();
    match (m, &mut *node) {
        (NodeMut::FlipBool, Val::Bool(b)) => *b = !*b,
        (NodeMut::XorLow, Val::U8(x)) => *x ^= 1,
        (NodeMut::XorLow, Val::U32(x)) => *x ^= 1,
        (NodeMut::XorLow, Val::U128(x)) => *x ^= 1,
        (NodeMut::XorLow, Val::Raw(r)) if !r.is_empty() => r[0] ^= 1,
        (NodeMut::XorTop, Val::U8(x)) => *x ^= 0x80,
        (NodeMut::XorTop, Val::U32(x)) => *x ^= 1 << 31,
        (NodeMut::XorTop, Val::U128(x)) => *x ^= 1 << 127,
        (NodeMut::XorTop, Val::Raw(r)) if !r.is_empty() => {
            let l = r.len() - 1;
            r[l] ^= 0x80
        }
        (NodeMut::SetZero, Val::U8(x)) => *x = 0,
        (NodeMut::SetZero, Val::U32(x)) => *x = 0,
        (NodeMut::SetZero, Val::U128(x)) => *x = 0,
        (NodeMut::SetZero, Val::Raw(r)) => r.iter_mut().for_each(|b| *b = 0),
        (NodeMut::SetOnes, Val::U8(x)) => *x = 0xff,
        (NodeMut::SetOnes, Val::U32(x)) => *x = u32::MAX,
        (NodeMut::SetOnes, Val::U128(x)) => *x = u128::MAX,
        (NodeMut::SetOnes, Val::Raw(r)) => r.iter_mut().for_each(|b| *b = 0xff),
        (NodeMut::XorWith(k), Val::U128(x)) => *x ^= *k,
        (NodeMut::XorWith(k), Val::Raw(r)) if r.len() == 16 => {
            for (a, b) in r.iter_mut().zip(k.to_be_bytes()) {
                *a ^= b
            }
        }
        (NodeMut::SomeToNone, Val::Opt(o)) if o.is_some() => *o = None,
        (NodeMut::NoneToSomeDefault, Val::Opt(o)) if o.is_none() => {
            if let Ty::Opt(t) = &ty {
                *o = Some(Box::new(default_of(t)))
            }
        }
        (NodeMut::VecEmpty, Val::Vec(xs)) => xs.clear(),
        (NodeMut::VecDropLast, Val::Vec(xs)) => {
            xs.pop();
        }
        (NodeMut::VecDupLast, Val::Vec(xs)) => {
            if let Some(l) = xs.last().cloned() {
                xs.push(l)
            } else if let Ty::Vec(t) = &ty {
                xs.push(default_of(t))
            }
        }
        (NodeMut::VecSwapFirstLast, Val::Vec(xs)) if xs.len() >= 2 => {
            let l = xs.len() - 1;
            xs.swap(0, l)
        }
        (NodeMut::XorByte(k), Val::Raw(r)) if *k < r.len() => r[*k] ^= 1,
        (NodeMut::XorByte(k), Val::Vec(xs)) if *k < xs.len() => {
            if let Val::U8(b) = &mut xs[*k] {
                *b ^= 1
            } else {
                return false;
            }
        }
        _ => return false,
    }
    *node != before
}

/// Menu of mutations applicable to a node of this type/value.
pub fn node_menu(ty: &Ty, v: &Val) -> Vec<NodeMut> {
    match (ty, v) {
        (Ty::Bool, _) => vec![NodeMut::FlipBool],
        (Ty::U8, _) | (Ty::U32, _) | (Ty::U128, _) => {
            vec![NodeMut::XorLow, NodeMut::XorTop, NodeMut::SetZero, NodeMut::SetOnes]
        }
        (Ty::Raw(_), _) => vec![NodeMut::XorLow, NodeMut::XorTop, NodeMut::SetZero, NodeMut::SetOnes],
        (Ty::Opt(_), Val::Opt(Some(_))) => vec![NodeMut::SomeToNone],
        (Ty::Opt(_), Val::Opt(None)) => vec![NodeMut::NoneToSomeDefault],
        (Ty::Vec(_), _) => vec![
            NodeMut::VecEmpty,
            NodeMut::VecDropLast,
            NodeMut::VecDupLast,
            NodeMut::VecSwapFirstLast,
        ],
        _ => vec![],
    }
}

/// All node paths of a value, with homogeneous vectors longer than `cap` reduced to
/// first / middle / last element (`cap = usize::MAX` takes everything).
pub fn paths(ty: &Ty, v: &Val, cap: usize) -> Vec<Path> {
    let mut out = vec![];
    fn rec(ty: &Ty, v: &Val, cap: usize, cur: &mut Path, out: &mut Vec<Path>) {
        out.push(cur.clone());
        match (ty, v) {
            (Ty::Vec(t), Val::Vec(xs)) => {
                // byte vectors are leaves with byte-level mutations
                if matches!(**t, Ty::U8) {
                    return;
                }
                let idx: Vec<usize> = if xs.len() > cap {
                    let n = xs.len();
                    let mut i = vec![0, n / 2, n - 1];
                    // the engine handles long vectors in 64- and 128-element blocks (bits unpacked from
                    // random words, transposition, chunked checks): both sides of the first block
                    // boundary, the last index that is 63 mod 64, both sides of the last full 128-block
                    if n > 64 {
                        i.extend([63, 64, ((n - 64) / 64) * 64 + 63]);
                    }
                    if n > 128 {
                        i.extend([(n / 128) * 128 - 1, ((n / 128) * 128).min(n - 1)]);
                    }
                    i.sort();
                    i.dedup();
                    i
                } else {
                    (0..xs.len()).collect()
                };
                for i in idx {
                    cur.push(i);
                    rec(t, &xs[i], cap, cur, out);
                    cur.pop();
                }
            }
            (Ty::Tup(ts), Val::Tup(xs)) => {
                for (i, (t, x)) in ts.iter().zip(xs).enumerate() {
                    cur.push(i);
                    rec(t, x, cap, cur, out);
                    cur.pop();
                }
            }
            (Ty::Opt(t), Val::Opt(Some(x))) => {
                cur.push(0);
                rec(t, x, cap, cur, out);
                cur.pop();
            }
            _ => {}
        }
    }
    rec(ty, v, cap, &mut vec![], &mut out);
    out
}

/// Byte offsets of structural boundaries of an encoded value (ends of every node).
pub fn boundaries(ty: &Ty, v: &Val) -> Vec<usize> {
    fn rec(ty: &Ty, v: &Val, pos: &mut usize, out: &mut Vec<usize>, depth: usize) {
        match (ty, v) {
            (Ty::Vec(t), Val::Vec(xs)) => {
                *pos += 8;
                out.push(*pos);
                let leafy = matches!(**t, Ty::U8 | Ty::Bool);
                for x in xs {
                    rec(t, x, pos, out, depth + 1);
                    if !leafy && depth < 2 {
                        out.push(*pos);
                    }
                }
                out.push(*pos);
            }
            (Ty::Tup(ts), Val::Tup(xs)) => {
                for (t, x) in ts.iter().zip(xs) {
                    rec(t, x, pos, out, depth + 1);
                }
            }
            (Ty::Opt(t), Val::Opt(o)) => {
                *pos += 1;
                if let Some(x) = o {
                    rec(t, x, pos, out, depth + 1);
                }
            }
            (_, x) => {
                *pos += encode_vec(x).len();
            }
        }
    }
    let mut out = vec![];
    let mut pos = 0;
    rec(ty, v, &mut pos, &mut out, 0);
    out.sort();
    out.dedup();
    out
}

/// Byte offsets of every length prefix (outer and nested) of an encoded value.
pub fn length_fields(ty: &Ty, v: &Val, cap: usize) -> Vec<usize> {
    fn rec(ty: &Ty, v: &Val, pos: &mut usize, out: &mut Vec<usize>, cap: usize) {
        match (ty, v) {
            (Ty::Vec(t), Val::Vec(xs)) => {
                out.push(*pos);
                *pos += 8;
                let n = xs.len();
                for (i, x) in xs.iter().enumerate() {
                    let keep = n <= cap || i == 0 || i == n / 2 || i == n - 1;
                    let before = out.len();
                    rec(t, x, pos, out, cap);
                    if !keep {
                        out.truncate(before);
                    }
                }
            }
            (Ty::Tup(ts), Val::Tup(xs)) => {
                for (t, x) in ts.iter().zip(xs) {
                    rec(t, x, pos, out, cap);
                }
            }
            (Ty::Opt(t), Val::Opt(o)) => {
                *pos += 1;
                if let Some(x) = o {
                    rec(t, x, pos, out, cap);
                }
            }
            (_, x) => *pos += encode_vec(x).len(),
        }
    }
    let mut out = vec![];
    let mut pos = 0;
    rec(ty, v, &mut pos, &mut out, cap);
    out
}

pub fn val_summary(v: &Val) -> Value {
    match v {
        Val::Bool(b) => json!(b),
        Val::U8(x) => json!(x),
        Val::U32(x) => json!(x),
        Val::U128(x) => json!(format!("{x:#034x}")),
        Val::Raw(r) => json!(format!("raw{}", r.len())),
        Val::Opt(None) => Value::Null,
        Val::Opt(Some(x)) => val_summary(x),
        Val::Vec(xs) => {
            if xs.len() > 6 {
                json!(format!("vec[{}]", xs.len()))
            } else {
                Value::Array(xs.iter().map(val_summary).collect())
            }
        }
        Val::Tup(xs) => Value::Array(xs.iter().map(val_summary).collect()),
    }
}

/// Validates the schema table against an honest transcript: every message must decode under its
/// schema and re-encode byte-identically.
pub fn validate_transcript(msgs: &[crate::exec::MsgRec]) -> Result<usize, String> {
    let mut n = 0;
    for m in msgs {
        let v = decode_msg(&m.label, &m.bytes)
            .map_err(|e| format!("message {:?} {}->{} does not decode under its schema: {e}", m.label, m.from, m.to))?;
        if encode_vec(&v) != **m.bytes {
            return Err(format!("message {:?} does not re-encode identically", m.label));
        }
        n += 1;
    }
    Ok(n)
}
