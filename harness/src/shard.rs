//! Subprocess sharding for sweeps over untrusted bytes: an abort (allocation failure, stack
//! overflow) kills only a worker and is attributed to the case it was running.

use std::io::{BufRead, BufReader, Write};
use std::process::{Command, Stdio};

use serde_json::Value;

pub struct ChildSpec {
    pub index: usize,
    pub stride: usize,
    pub from: usize,
}

/// Parses `--child <index> <stride> <from>` from the argument list.
pub fn child_spec(args: &[String]) -> Option<ChildSpec> {
    let pos = args.iter().position(|a| a == "--child")?;
    Some(ChildSpec {
        index: args.get(pos + 1)?.parse().ok()?,
        stride: args.get(pos + 2)?.parse().ok()?,
        from: args.get(pos + 3)?.parse().ok()?,
    })
}

/// Child side: run `f(case index)` for this shard, framing each case on stdout.
pub fn child_loop(spec: &ChildSpec, total: usize, f: impl Fn(usize) -> Value) {
    let out = std::io::stdout();
    let mut i = spec.index;
    while i < total {
        if i >= spec.from {
            {
                let mut o = out.lock();
                let _ = writeln!(o, "B {i}");
                let _ = o.flush();
            }
            let v = f(i);
            let mut o = out.lock();
            let _ = writeln!(o, "E {i} {}", serde_json::to_string(&v).unwrap());
            let _ = o.flush();
        }
        i += spec.stride;
    }
}

pub enum CaseResult {
    Done(Value),
    /// the worker died while running this case
    Aborted(String),
    NotRun,
}

/// Parent side: runs `total` cases in `workers` child processes of this same binary.
pub fn run_children(check: &str, tier: &str, total: usize, workers: usize, budget: &crate::util::Budget) -> Vec<CaseResult> {
    let exe = std::env::current_exe().expect("current exe");
    let results: std::sync::Mutex<Vec<CaseResult>> = std::sync::Mutex::new((0..total).map(|_| CaseResult::NotRun).collect());
    std::thread::scope(|s| {
        for w in 0..workers {
            let exe = exe.clone();
            let results = &results;
            s.spawn(move || {
                let mut from = 0usize;
                loop {
                    if budget.exhausted() {
                        break;
                    }
                    let mut child = Command::new(&exe)
                        .args([check, tier, "--child", &w.to_string(), &workers.to_string(), &from.to_string()])
                        .env("PVX_THREADS", "1")
                        .stdout(Stdio::piped())
                        .stderr(Stdio::null())
                        .spawn()
                        .expect("spawn worker");
                    let rd = BufReader::new(child.stdout.take().unwrap());
                    let mut current: Option<usize> = None;
                    let mut last_done: Option<usize> = None;
                    for line in rd.lines() {
                        let Ok(line) = line else { break };
                        if let Some(rest) = line.strip_prefix("B ") {
                            current = rest.trim().parse().ok();
                        } else if let Some(rest) = line.strip_prefix("E ") {
                            let mut it = rest.splitn(2, ' ');
                            let idx: usize = it.next().unwrap_or("").parse().unwrap_or(usize::MAX);
                            let v: Value = serde_json::from_str(it.next().unwrap_or("null")).unwrap_or(Value::Null);
                            if idx < total {
                                results.lock().unwrap()[idx] = CaseResult::Done(v);
                            }
                            last_done = Some(idx);
                            current = None;
                        }
                        if budget.exhausted() {
                            let _ = child.kill();
                            break;
                        }
                    }
                    let status = child.wait();
                    match (current, status) {
                        (Some(idx), st) if !budget.exhausted() => {
                            let how = match st {
                                Ok(s) => format!("worker died ({s})"),
                                Err(e) => format!("worker wait failed: {e}"),
                            };
                            results.lock().unwrap()[idx] = CaseResult::Aborted(how);
                            from = idx + 1;
                            // continue with a fresh worker after the offending case
                        }
                        _ => {
                            let _ = last_done;
                            break;
                        }
                    }
                }
            });
        }
    });
    results.into_inner().unwrap()
}
