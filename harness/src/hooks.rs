//! Per-party-thread probe/tap slot (polytune feature `__verif`).  One party per thread, so the slot
//! identifies the party.  An honest party without taps executes unmodified code; probes only read.

use std::collections::HashMap;
use std::sync::{Arc, Mutex};

use polytune::verif::{Hook, set_hook};

use crate::exec::Net;

#[derive(Clone, Debug, PartialEq)]
pub enum ProbeVal {
    U128s(Vec<u128>),
    Usizes(Vec<usize>),
    Bytes(Vec<u8>),
    Bools(Vec<bool>),
    BoolVecs(Vec<Vec<bool>>),
}

#[derive(Clone, Debug)]
pub struct ProbeRec {
    pub party: usize,
    pub name: String,
    /// occurrence index of this name on this party
    pub occ: usize,
    pub val: ProbeVal,
    pub t: u64,
}

pub type TapFn = Arc<dyn Fn(&mut Hook<'_>) + Send + Sync>;

#[derive(Clone)]
pub struct TapSpec {
    pub party: usize,
    pub name: String,
    /// occurrence of `name` on that party (None = every occurrence)
    pub occ: Option<usize>,
    pub f: TapFn,
}

fn snapshot(h: &Hook<'_>) -> ProbeVal {
    match h {
        Hook::U128s(v) => ProbeVal::U128s(v.to_vec()),
        Hook::Usizes(v) => ProbeVal::Usizes(v.to_vec()),
        Hook::Bytes(v) => ProbeVal::Bytes(v.to_vec()),
        Hook::Bools(v) => ProbeVal::Bools(v.to_vec()),
        Hook::BoolVecs(v) => ProbeVal::BoolVecs(v.to_vec()),
    }
}

pub fn party_thread_start(p: usize, net: Arc<Mutex<Net>>, taps: Vec<TapSpec>, record: bool) {
    if !record && taps.is_empty() {
        return;
    }
    let mut occ: HashMap<String, usize> = HashMap::new();
    set_hook(Some(Box::new(move |name: &str, mut h: Hook<'_>| {
        let o = {
            let c = occ.entry(name.to_string()).or_insert(0);
            let o = *c;
            *c += 1;
            o
        };
        for t in taps.iter().filter(|t| t.party == p && t.name == name && t.occ.is_none_or(|x| x == o)) {
            (t.f)(&mut h);
        }
        if record {
            let val = snapshot(&h);
            if let Ok(mut n) = net.lock() {
                let t = n.t;
                n.probes.push(ProbeRec { party: p, name: name.to_string(), occ: o, val, t });
            }
        }
    })));
}

pub fn party_thread_end(_p: usize) {
    set_hook(None);
}
