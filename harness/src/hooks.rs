//! Per-party-thread probe/tap slots (filled when polytune is built with the `__verif` feature).

pub fn party_thread_start(_p: usize) {}
pub fn party_thread_end(_p: usize) {}
