//! E2 - adversary layer: enumeration of message alterations of a corrupted party, computed from
//! the honest transcript of the same tape ("advice"): up to the first fault an execution coincides
//! with the honest one, so a single fault can be expressed as a replacement of known bytes.

use std::sync::Arc;

use crate::exec::{Dir, Fault, MsgRec, Mutation};
use crate::schema::{self, NodeMut, Ty, Val};

/// A mutated version of one honest message.
#[derive(Clone)]
pub struct MsgMut {
    /// short class name, e.g. "struct:VecDropLast@[]" or "byte:trunc"
    pub class: String,
    /// human-readable detail
    pub detail: String,
    pub bytes: Arc<Vec<u8>>,
    /// does it change an element count / drop an optional / is it byte-level malformed?
    pub malformed: bool,
    /// node path and mutation for structure-aware mutations
    pub path: Option<Vec<usize>>,
    pub node: Option<NodeMut>,
    /// computed from the bytes actually sent (for faults that follow an earlier fault)
    pub dynamic: Option<crate::exec::MutFn>,
}

fn pick_indices(n: usize, k: usize) -> Vec<usize> {
    if n <= k {
        (0..n).collect()
    } else {
        let mut v = vec![0, 1, n / 2, n - 2, n - 1];
        // the engine processes long vectors in 64- and 128-element blocks (bit unpacking of random
        // words, transposition, chunked checks): both sides of the first block boundaries and of the
        // last full block
        v.extend([62, 63, 64, 127, 128]);
        v.extend([(n / 128) * 128, ((n / 128) * 128).saturating_sub(1)]);
        if n >= 64 {
            // the last index that is 63 mod 64
            v.push(((n - 64) / 64) * 64 + 63);
        }
        v.retain(|i| *i < n);
        v.sort();
        v.dedup();
        v
    }
}

/// Byte-level classes: empty; truncation at structural boundaries and one byte short of them;
/// trailing garbage; huge length prefixes at every length field; random bytes of the same length.
pub fn byte_level(ty: &Ty, val: &Val, bytes: &[u8], salt: u64, cap: usize) -> Vec<MsgMut> {
    let mut out = vec![];
    let mut push = |class: &str, detail: String, b: Vec<u8>| {
        if b != bytes {
            out.push(MsgMut { class: format!("byte:{class}"), detail, bytes: Arc::new(b), malformed: true, path: None, node: None, dynamic: None });
        }
    };
    push("empty", "empty message".into(), vec![]);
    let bounds: Vec<usize> = schema::boundaries(ty, val).into_iter().filter(|b| *b < bytes.len()).collect();
    for i in pick_indices(bounds.len(), cap.max(5)) {
        let b = bounds[i];
        push("trunc", format!("truncated at structural boundary {b} of {}", bytes.len()), bytes[..b].to_vec());
        if b > 0 {
            push("trunc-1", format!("truncated one byte before boundary {b}"), bytes[..b - 1].to_vec());
        }
    }
    if !bytes.is_empty() {
        push("trunc-last", "last byte removed".into(), bytes[..bytes.len() - 1].to_vec());
    }
    let mut t = bytes.to_vec();
    t.extend([0xAA; 7]);
    push("trailing", "7 trailing garbage bytes".into(), t);
    let lens = schema::length_fields(ty, val, cap);
    for i in pick_indices(lens.len(), cap.max(5)) {
        let off = lens[i];
        for (name, v) in [("len2^32", 1u64 << 32), ("len2^60", 1u64 << 60), ("len+1", u64::from_le_bytes(bytes[off..off + 8].try_into().unwrap()) + 1)] {
            let mut b = bytes.to_vec();
            b[off..off + 8].copy_from_slice(&v.to_le_bytes());
            push(name, format!("length prefix at byte {off} set to {v}"), b);
        }
    }
    let r: Vec<u8> = (0..bytes.len()).map(|i| crate::exec::mix(salt, i as u64) as u8).collect();
    push("random", "random bytes of the original length".into(), r);
    out
}

/// Structure-aware mutations at every node (homogeneous vectors longer than `cap` reduced to
/// first/middle/last).  `only_counts` keeps only mutations that change an element count or drop/add
/// an optional.
pub fn structural(ty: &Ty, val: &Val, cap: usize, only_counts: bool, extra_xor: &[u128]) -> Vec<MsgMut> {
    let mut out = vec![];
    let orig = schema::encode_vec(val);
    for path in schema::paths(ty, val, cap) {
        let (Some(nty), Some(nv)) = (schema::type_at(ty, val, &path), schema::get(val, &path)) else { continue };
        let mut menu = schema::node_menu(nty, nv);
        // byte vectors: flip single bytes at first / middle / last position
        if let (Ty::Vec(t), Val::Vec(xs)) = (nty, nv)
            && matches!(**t, Ty::U8)
            && !xs.is_empty()
        {
            for k in pick_indices(xs.len(), if cap == usize::MAX { usize::MAX } else { 3 }) {
                menu.push(NodeMut::XorByte(k));
            }
        }
        if let Ty::Raw(n) = nty {
            for k in pick_indices(*n, if cap == usize::MAX { usize::MAX } else { 3 }) {
                menu.push(NodeMut::XorByte(k));
            }
        }
        if matches!(nty, Ty::U128) || matches!(nty, Ty::Raw(16)) {
            for x in extra_xor {
                menu.push(NodeMut::XorWith(*x));
            }
        }
        for m in menu {
            if only_counts && !m.changes_count() {
                continue;
            }
            let mut v2 = val.clone();
            if !schema::apply(ty, &mut v2, &path, &m) {
                continue;
            }
            let b = schema::encode_vec(&v2);
            if b == orig {
                continue;
            }
            out.push(MsgMut {
                class: format!("struct:{}", m.name()),
                detail: format!("{} at path {:?}", m.name(), path),
                bytes: Arc::new(b),
                malformed: m.changes_count(),
                path: Some(path.clone()),
                node: Some(m.clone()),
                dynamic: None,
            });
        }
    }
    out
}

/// All messages sent by `c` in an honest run, in sending order.
pub fn sent_by(msgs: &[MsgRec], c: usize) -> Vec<&MsgRec> {
    msgs.iter().filter(|m| m.from == c).collect()
}

pub fn send_fault(m: &MsgRec, bytes: Arc<Vec<u8>>) -> Fault {
    Fault { party: m.from, dir: Dir::Send, peer: m.to, label: m.label.clone(), ord: m.ord, mutation: Mutation::Replace(bytes) }
}

pub fn recv_fault(m: &MsgRec, bytes: Arc<Vec<u8>>) -> Fault {
    Fault { party: m.to, dir: Dir::Recv, peer: m.from, label: m.label.clone(), ord: m.ord, mutation: Mutation::Replace(bytes) }
}

/// A fault described in plain data (for replay files and subprocess workers).
#[derive(Clone, Debug, serde::Serialize, serde::Deserialize)]
pub struct FaultDesc {
    pub from: usize,
    pub to: usize,
    pub label: String,
    pub ord: usize,
    pub class: String,
    pub detail: String,
}

impl std::fmt::Debug for MsgMut {
    fn fmt(&self, f: &mut std::fmt::Formatter<'_>) -> std::fmt::Result {
        write!(f, "MsgMut({}: {})", self.class, self.detail)
    }
}
