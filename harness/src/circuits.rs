//! Register circuits: harness-side representation, independent clear-text evaluator,
//! bounded-exhaustive enumerator of canonical circuits, and named feature circuits.

use polytune::garble_lang::register_circuit::{And, Circuit, Input, Inst, Not, Op, Reg, Xor};
use serde::{Deserialize, Serialize};

#[derive(Clone, Copy, Debug, PartialEq, Eq, Hash, Serialize, Deserialize)]
pub enum G {
    In(u32, u32),
    Xor(u32, u32),
    And(u32, u32),
    Not(u32),
}

#[derive(Clone, Debug, PartialEq, Eq, Hash, Serialize, Deserialize)]
pub struct Circ {
    /// number of input bits per party
    pub inputs: Vec<usize>,
    /// (output register, gate)
    pub insts: Vec<(u32, G)>,
    pub outputs: Vec<u32>,
    pub max_reg: usize,
}

impl Circ {
    pub fn n(&self) -> usize {
        self.inputs.len()
    }
    pub fn and_count(&self) -> usize {
        self.insts.iter().filter(|(_, g)| matches!(g, G::And(..))).count()
    }
    pub fn to_polytune(&self) -> Circuit {
        Circuit {
            input_regs: self.inputs.clone(),
            insts: self
                .insts
                .iter()
                .map(|(o, g)| Inst {
                    out: Reg(*o),
                    op: match *g {
                        G::In(p, i) => Op::Input(Input { party: p, input: i }),
                        G::Xor(a, b) => Op::Xor(Xor(Reg(a), Reg(b))),
                        G::And(a, b) => Op::And(And(Reg(a), Reg(b))),
                        G::Not(a) => Op::Not(Not(Reg(a))),
                    },
                })
                .collect(),
            max_reg_count: self.max_reg,
            output_regs: self.outputs.iter().map(|r| Reg(*r)).collect(),
            and_ops: self.and_count(),
        }
    }
    /// Independent evaluator (does not use `Circuit::eval`).
    pub fn eval(&self, inputs: &[Vec<bool>]) -> Vec<bool> {
        let mut regs = vec![false; self.max_reg];
        for (o, g) in &self.insts {
            let v = match *g {
                G::In(p, i) => inputs[p as usize][i as usize],
                G::Xor(a, b) => regs[a as usize] != regs[b as usize],
                G::And(a, b) => regs[a as usize] && regs[b as usize],
                G::Not(a) => !regs[a as usize],
            };
            regs[*o as usize] = v;
        }
        self.outputs.iter().map(|r| regs[*r as usize]).collect()
    }
    /// Value of every register after the last instruction.
    pub fn eval_regs(&self, inputs: &[Vec<bool>]) -> Vec<bool> {
        let mut regs = vec![false; self.max_reg];
        for (o, g) in &self.insts {
            let v = match *g {
                G::In(p, i) => inputs[p as usize][i as usize],
                G::Xor(a, b) => regs[a as usize] != regs[b as usize],
                G::And(a, b) => regs[a as usize] && regs[b as usize],
                G::Not(a) => !regs[a as usize],
            };
            regs[*o as usize] = v;
        }
        regs
    }
    pub fn total_inputs(&self) -> usize {
        self.inputs.iter().sum()
    }
    /// All input assignments (each a Vec per party).
    pub fn all_inputs(&self) -> Vec<Vec<Vec<bool>>> {
        let t = self.total_inputs();
        (0..(1u64 << t)).map(|m| self.inputs_from_mask(m)).collect()
    }
    pub fn inputs_from_mask(&self, m: u64) -> Vec<Vec<bool>> {
        let mut k = 0;
        self.inputs
            .iter()
            .map(|c| {
                (0..*c)
                    .map(|_| {
                        let b = (m >> k) & 1 == 1;
                        k += 1;
                        b
                    })
                    .collect()
            })
            .collect()
    }
    /// Short textual form for evidence samples.
    pub fn show(&self) -> String {
        let mut s = format!("in{:?} ", self.inputs);
        let gates = self.insts.iter().filter(|(_, g)| !matches!(g, G::In(..))).count();
        let mut shown = 0;
        for (o, g) in &self.insts {
            if !matches!(g, G::In(..)) {
                shown += 1;
                if shown == 13 {
                    s += &format!("...({} gates, {} AND);", gates, self.and_count());
                }
                if shown >= 13 {
                    continue;
                }
            }
            match g {
                G::In(..) => {}
                G::Xor(a, b) => s += &format!("r{o}=r{a}^r{b};"),
                G::And(a, b) => s += &format!("r{o}=r{a}&r{b};"),
                G::Not(a) => s += &format!("r{o}=!r{a};"),
            }
        }
        s += &format!(" out{:?}", self.outputs);
        s
    }
}

/// Input instructions for a layout: party p's bits in order, registers 0..k.
pub fn input_insts(layout: &[usize]) -> Vec<(u32, G)> {
    let mut v = vec![];
    let mut r = 0u32;
    for (p, c) in layout.iter().enumerate() {
        for i in 0..*c {
            v.push((r, G::In(p as u32, i as u32)));
            r += 1;
        }
    }
    v
}

/// Builder for hand-written circuits.
pub struct B {
    pub c: Circ,
    next: u32,
}

impl B {
    pub fn new(layout: &[usize]) -> Self {
        let insts = input_insts(layout);
        let next = insts.len() as u32;
        B {
            c: Circ {
                inputs: layout.to_vec(),
                insts,
                outputs: vec![],
                max_reg: next as usize,
            },
            next,
        }
    }
    fn push(&mut self, out: Option<u32>, g: G) -> u32 {
        let o = out.unwrap_or_else(|| {
            let o = self.next;
            self.next += 1;
            o
        });
        self.c.insts.push((o, g));
        self.c.max_reg = self.c.max_reg.max(o as usize + 1);
        o
    }
    pub fn xor(&mut self, a: u32, b: u32) -> u32 {
        self.push(None, G::Xor(a, b))
    }
    pub fn and(&mut self, a: u32, b: u32) -> u32 {
        self.push(None, G::And(a, b))
    }
    pub fn not(&mut self, a: u32) -> u32 {
        self.push(None, G::Not(a))
    }
    pub fn xor_into(&mut self, o: u32, a: u32, b: u32) -> u32 {
        self.push(Some(o), G::Xor(a, b))
    }
    pub fn and_into(&mut self, o: u32, a: u32, b: u32) -> u32 {
        self.push(Some(o), G::And(a, b))
    }
    pub fn not_into(&mut self, o: u32, a: u32) -> u32 {
        self.push(Some(o), G::Not(a))
    }
    pub fn out(mut self, outs: &[u32]) -> Circ {
        self.c.outputs = outs.to_vec();
        self.c
    }
}

/// All canonical gate programs with exactly `k` gate instructions over `layout`.
/// Canonical = operand order of commutative gates normalised (a <= b); no other symmetry assumed.
/// The output register of every instruction ranges over every written register and the next fresh
/// one.  Outputs are left empty (see `with_outputs`).
pub fn enumerate_programs(layout: &[usize], k: usize) -> Vec<Circ> {
    let base = Circ {
        inputs: layout.to_vec(),
        insts: input_insts(layout),
        outputs: vec![],
        max_reg: layout.iter().sum(),
    };
    let mut res = vec![];
    fn rec(c: &Circ, k: usize, res: &mut Vec<Circ>) {
        if k == 0 {
            res.push(c.clone());
            return;
        }
        let w = c.max_reg as u32; // registers 0..w are written (fresh ones are allocated densely)
        let mut gates = vec![];
        for a in 0..w {
            for b in a..w {
                gates.push(G::Xor(a, b));
            }
        }
        for a in 0..w {
            for b in a..w {
                gates.push(G::And(a, b));
            }
        }
        for a in 0..w {
            gates.push(G::Not(a));
        }
        for g in gates {
            for o in 0..=w {
                let mut c2 = c.clone();
                c2.insts.push((o, g));
                c2.max_reg = c2.max_reg.max(o as usize + 1);
                rec(&c2, k - 1, res);
            }
        }
    }
    rec(&base, k, &mut res);
    res
}

/// Output templates: 0 = all registers ascending, then a duplicate of the first, then descending;
/// 1 = last written register alone; 2 = descending only.
pub fn with_outputs(c: &Circ, template: usize) -> Circ {
    let mut c = c.clone();
    let w = c.max_reg as u32;
    let last = c.insts.last().map(|(o, _)| *o).unwrap_or(0);
    c.outputs = match template {
        0 => {
            let mut v: Vec<u32> = (0..w).collect();
            v.push(0);
            v.extend((0..w).rev());
            v
        }
        1 => vec![last],
        _ => (0..w).rev().collect(),
    };
    c
}

/// A chain with `ands` AND gates over two parties' single bits: acc = a; acc = acc & b (xor a) ...
/// Kept small in registers by reusing two registers.
pub fn and_chain(n: usize, ands: usize) -> Circ {
    let layout = vec![1usize; n];
    let mut b = B::new(&layout);
    // x = xor of all inputs, y = input 0
    let mut x = 0u32;
    for p in 1..n as u32 {
        x = b.xor(x, p);
    }
    let acc = b.xor(x, 0); // fresh register holding (xor of inputs 1..n)
    let t = b.not(acc); // second scratch register
    for i in 0..ands {
        // alternate so that the value keeps depending on inputs
        if i % 2 == 0 {
            b.and_into(t, acc, 0);
            b.xor_into(acc, t, 1);
        } else {
            b.and_into(t, acc, 1);
            b.xor_into(acc, t, 0);
        }
    }
    b.out(&[acc, t])
}

/// Named feature circuits used by several checks.
pub fn feature_circuits(n: usize) -> Vec<(&'static str, Circ)> {
    let ones = vec![1usize; n];
    let mut v = vec![];
    // 1. plain AND of first two, xor of rest
    {
        let mut b = B::new(&ones);
        let a = b.and(0, 1);
        let mut x = a;
        for p in 2..n as u32 {
            x = b.xor(x, p);
        }
        v.push(("and_xor", b.out(&[x])));
    }
    // 2. no AND gate at all
    {
        let mut b = B::new(&ones);
        let mut x = 0;
        for p in 1..n as u32 {
            x = b.xor(x, p);
        }
        let y = b.not(x);
        v.push(("no_and", b.out(&[x, y])));
    }
    // 3. register reuse: overwrite an operand and an input register
    {
        let mut b = B::new(&ones);
        let a = b.and(0, 1);
        b.xor_into(0, a, 1); // overwrite input reg 0
        b.and_into(a, 0, 1); // overwrite a with a new AND
        v.push(("reg_reuse", b.out(&[a, 0, 1])));
    }
    // 4. NOT chain and x AND x, x XOR x
    {
        let mut b = B::new(&ones);
        let a = b.not(0);
        let c = b.not(a);
        let d = b.and(c, c);
        let e = b.xor(1, 1);
        let f = b.not(e);
        let g = b.and(d, f);
        v.push(("not_chain_xx", b.out(&[g, e, a])));
    }
    // 5. outputs that are inputs, duplicated outputs
    {
        let mut b = B::new(&ones);
        let a = b.and(0, 1);
        v.push(("out_is_input_dup", b.out(&[0, a, a, 1, 0])));
    }
    // 6. a party with zero inputs (last party)
    {
        let mut lay = ones.clone();
        lay[n - 1] = 0;
        if n == 2 {
            lay[0] = 2;
        }
        let mut b = B::new(&lay);
        let a = b.and(0, 1);
        let c = b.not(a);
        v.push(("zero_input_party", b.out(&[c, a])));
    }
    // 7. AND of ANDs, NOT on AND output and on output wire
    {
        let mut lay = ones.clone();
        lay[0] = 2;
        let mut b = B::new(&lay);
        let a = b.and(0, 2);
        let c = b.and(1, 2);
        let d = b.not(a);
        let e = b.and(d, c);
        let f = b.not(e);
        v.push(("and_of_ands", b.out(&[f, d])));
    }
    // 8. output register aliases an earlier internal wire via reuse
    {
        let mut b = B::new(&ones);
        let a = b.and(0, 1); // internal secret wire
        let c = b.xor(a, 0);
        b.not_into(a, c); // a now holds !c ; the old AND value is gone
        v.push(("alias_internal", b.out(&[a])));
    }
    v
}

#[cfg(test)]
mod tests {
    use super::*;
    #[test]
    fn eval_matches_polytune_eval() {
        for n in 2..4 {
            for (_, c) in feature_circuits(n) {
                let pc = c.to_polytune();
                pc.validate().unwrap();
                for inp in c.all_inputs() {
                    assert_eq!(c.eval(&inp), pc.eval(&inp));
                }
            }
        }
    }
}
