//! pvx - model-checking harness for sine-fdn/polytune.  One subcommand per property.

mod adv;
mod alloc;
mod campaign;
mod checks;
mod circuits;
mod exec;
mod explore;
mod monitors;
mod hooks;
mod known_tests;
mod mpcrun;
mod replay;
mod schema;
mod shard;
mod skel;
mod srv;
mod srvx;
mod util;

#[global_allocator]
static GLOBAL: alloc::Counting = alloc::Counting;

use util::Tier;

fn main() {
    let args: Vec<String> = std::env::args().collect();
    if args.len() < 2 {
        eprintln!("usage: pvx <C01..C20|selftest|replay> [quick|thorough] [args]");
        std::process::exit(2);
    }
    let tier = match args.get(2).map(|s| s.as_str()) {
        Some("thorough") => Tier::Thorough,
        _ => Tier::Quick,
    };
    let seed = util::seed_from_env();
    // panics inside party polls are caught and reported as outcomes; keep stderr quiet about them
    if std::env::var("PVX_PANIC_TRACE").is_err() {
        std::panic::set_hook(Box::new(|_| {}));
    }
    if args[1] == "replay" {
        let c = replay::main(args.get(2).map(|s| s.as_str()).unwrap_or(""));
        mpcrun::cleanup_tmp_root();
        std::process::exit(c);
    }
    let code = std::panic::catch_unwind(|| checks::dispatch(&args[1], tier, seed, &args[2..]));
    mpcrun::cleanup_tmp_root();
    match code {
        Ok(c) => std::process::exit(c),
        Err(e) => {
            let msg = e
                .downcast_ref::<String>()
                .cloned()
                .or_else(|| e.downcast_ref::<&str>().map(|s| s.to_string()))
                .unwrap_or_default();
            println!("MACHINERY-ERROR check={} harness panicked: {}", args[1], msg);
            std::process::exit(2)
        }
    }
}
