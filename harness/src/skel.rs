//! E5 - communication skeleton extracted from the implementation's own traces, checked for all
//! interleavings with stateright, and bound back to the code in both directions (C12 tier 2).

use std::collections::{HashMap, VecDeque};

use stateright::{Checker, Model, Property};

use crate::exec::{Action, Dir, ExecCfg, Execution, OpRec, RunResult};
use crate::mpcrun::{MpcCase, mpc_body};

/// Identity of an operation that is stable across executions: the k-th send to / receive from a peer.
#[derive(Clone, Copy, Debug, PartialEq, Eq, Hash, PartialOrd, Ord)]
pub struct OpId {
    pub peer: u8,
    pub dir: Dir,
    pub k: u16,
}

#[derive(Clone, Debug)]
pub struct SOp {
    pub id: OpId,
    pub label: String,
    /// indices (into the party's op list) of the operations that must have completed before the
    /// engine issues this one
    pub guard: Vec<u16>,
}

#[derive(Clone, Debug)]
pub struct Skeleton {
    pub n: usize,
    pub capacity: Option<usize>,
    /// per party, in default issue order
    pub ops: Vec<Vec<SOp>>,
    pub index: Vec<HashMap<OpId, u16>>,
}

/// The party's operations of a run in issue order, with stable identities.
pub fn party_ops(ops: &[OpRec], p: usize) -> Vec<(OpId, &OpRec)> {
    let mut mine: Vec<&OpRec> = ops.iter().filter(|o| o.party == p && o.issue_t != 0).collect();
    mine.sort_by_key(|o| o.issue_t);
    let mut ctr: HashMap<(usize, Dir), u16> = HashMap::new();
    mine.into_iter()
        .map(|o| {
            let c = ctr.entry((o.peer, o.dir)).or_insert(0);
            let id = OpId { peer: o.peer as u8, dir: o.dir, k: *c };
            *c += 1;
            (id, o)
        })
        .collect()
}

/// Runs the real code with operation `y` of party `p` starved for as long as anything else can
/// progress; returns the set of p's operations that were issued while `y` was outstanding.
fn starve_run(case: &MpcCase, cfg: &ExecCfg, p: usize, y: OpId) -> Result<Vec<OpId>, String> {
    let mut ex: Execution<Vec<bool>> = Execution::start(cfg, mpc_body(case, 870));
    {
        let mut net = ex.net.lock().unwrap();
        match y.dir {
            Dir::Send => net.hold_send = Some((p, y.peer as usize, y.k as usize)),
            Dir::Recv => net.hold_deliver = Some((y.peer as usize, p, y.k as usize)),
        }
    }
    let mut steps = 0usize;
    loop {
        if ex.all_done() {
            break;
        }
        let en = ex.enabled();
        let useful = en.iter().any(|a| matches!(a, Action::Run(_))) || en.iter().any(|a| matches!(a, Action::Deliver(_, j) if ex.outcomes[*j as usize].is_none()));
        if !useful {
            break; // everything else is blocked behind y
        }
        ex.step(en[0]);
        steps += 1;
        if steps > 2_000_000 {
            return Err("starve run did not block".into());
        }
    }
    let issued = {
        let net = ex.net.lock().unwrap();
        let ops = party_ops(&net.ops, p);
        // y itself must have been issued and must not have completed
        let yo = ops.iter().find(|(id, _)| *id == y);
        match yo {
            Some((_, o)) if o.complete_t.is_none() => {}
            Some(_) => return Err(format!("op {y:?} of party {p} completed although it was held")),
            None => {
                // y was never issued: the run blocked before (only possible if the hold blocked an
                // earlier dependency, which cannot be) - or the run finished without it
                return Err(format!("op {y:?} of party {p} was never issued in the starve run"));
            }
        }
        let y_issue = yo.unwrap().1.issue_t;
        ops.iter().filter(|(id, o)| *id != y && o.issue_t > y_issue).map(|(id, _)| *id).collect::<Vec<_>>()
    };
    ex.release_holds();
    drop(ex);
    Ok(issued)
}

pub struct Extraction {
    pub skel: Skeleton,
    pub starve_runs: usize,
    pub base: RunResult<Vec<bool>>,
}

pub fn extract(case: &MpcCase, capacity: Option<usize>, seed: u64) -> Result<Extraction, String> {
    let n = case.n();
    // guards are a property of the code, not of the channel: extract them on unbounded channels
    let cfg = ExecCfg::new(n, seed);
    let base = crate::exec::run_default(&cfg, mpc_body(case, 871));
    crate::mpcrun::check_honest(case, &base)?;
    let mut jobs: Vec<(usize, OpId)> = vec![];
    let mut lists: Vec<Vec<(OpId, String)>> = vec![];
    for p in 0..n {
        let ops = party_ops(&base.ops, p);
        for (id, _) in &ops {
            jobs.push((p, *id));
        }
        lists.push(ops.iter().map(|(id, o)| (*id, o.label.clone())).collect());
    }
    let results = crate::util::par_map(&jobs, |_, _, (p, y)| starve_run(case, &cfg, *p, *y));
    let mut index: Vec<HashMap<OpId, u16>> = lists.iter().map(|l| l.iter().enumerate().map(|(i, (id, _))| (*id, i as u16)).collect()).collect();
    let mut ops: Vec<Vec<SOp>> = lists.iter().map(|l| l.iter().map(|(id, label)| SOp { id: *id, label: label.clone(), guard: vec![] }).collect()).collect();
    for ((p, y), r) in jobs.iter().zip(results) {
        let issued = r?;
        let yi = index[*p][y] as usize;
        // every op after y (in default issue order) that was NOT issued while y was outstanding depends on y
        for xi in yi + 1..ops[*p].len() {
            let xid = ops[*p][xi].id;
            if !issued.contains(&xid) {
                ops[*p][xi].guard.push(yi as u16);
            }
        }
    }
    let _ = &mut index;
    Ok(Extraction { skel: Skeleton { n, capacity, ops, index }, starve_runs: jobs.len(), base })
}

// ---------------------------------------------------------------------------------------------
// The model
// ---------------------------------------------------------------------------------------------

#[derive(Clone, Debug, PartialEq, Eq, Hash)]
pub struct SState {
    /// completed operations per party (bitset)
    pub done: Vec<Vec<u64>>,
    /// per ordered pair i*n+j: (inflight, inbox)
    pub q: Vec<(u8, u8)>,
}

#[derive(Clone, Copy, Debug, PartialEq, Eq, Hash)]
pub enum SAct {
    Send(u8, u16),
    Recv(u8, u16),
    Deliver(u8, u8),
}

fn bit(v: &[u64], i: usize) -> bool {
    (v[i / 64] >> (i % 64)) & 1 == 1
}

impl Skeleton {
    pub fn issued(&self, s: &SState, p: usize, i: usize) -> bool {
        !bit(&s.done[p], i) && self.ops[p][i].guard.iter().all(|g| bit(&s.done[p], *g as usize))
    }
    fn completed_on(&self, s: &SState, p: usize, peer: u8, dir: Dir) -> u16 {
        self.ops[p].iter().enumerate().filter(|(i, o)| o.id.peer == peer && o.id.dir == dir && bit(&s.done[p], *i)).count() as u16
    }
    fn room(&self, s: &SState, i: usize, j: usize) -> bool {
        match self.capacity {
            None => true,
            Some(c) => {
                let (a, b) = s.q[i * self.n + j];
                (a as usize + b as usize) < c
            }
        }
    }
    pub fn all_done(&self, s: &SState) -> bool {
        (0..self.n).all(|p| (0..self.ops[p].len()).all(|i| bit(&s.done[p], i)))
    }
    pub fn outstanding_ok(&self, s: &SState) -> bool {
        for p in 0..self.n {
            let mut cnt: HashMap<(u8, Dir), u32> = HashMap::new();
            for i in 0..self.ops[p].len() {
                if self.issued(s, p, i) {
                    let c = cnt.entry((self.ops[p][i].id.peer, self.ops[p][i].id.dir)).or_insert(0);
                    *c += 1;
                    if *c > 1 {
                        return false;
                    }
                }
            }
        }
        true
    }
    pub fn enabled(&self, s: &SState, out: &mut Vec<SAct>) {
        for p in 0..self.n {
            for i in 0..self.ops[p].len() {
                if !self.issued(s, p, i) {
                    continue;
                }
                let o = &self.ops[p][i];
                let peer = o.id.peer as usize;
                match o.id.dir {
                    Dir::Send => {
                        if self.room(s, p, peer) && self.completed_on(s, p, o.id.peer, Dir::Send) == o.id.k {
                            out.push(SAct::Send(p as u8, i as u16));
                        }
                    }
                    Dir::Recv => {
                        if s.q[peer * self.n + p].1 > 0 && self.completed_on(s, p, o.id.peer, Dir::Recv) == o.id.k {
                            out.push(SAct::Recv(p as u8, i as u16));
                        }
                    }
                }
            }
        }
        for i in 0..self.n {
            for j in 0..self.n {
                if i != j && s.q[i * self.n + j].0 > 0 {
                    out.push(SAct::Deliver(i as u8, j as u8));
                }
            }
        }
    }
    pub fn apply(&self, s: &SState, a: SAct) -> SState {
        let mut t = s.clone();
        match a {
            SAct::Send(p, i) => {
                let peer = self.ops[p as usize][i as usize].id.peer as usize;
                t.done[p as usize][i as usize / 64] |= 1 << (i % 64);
                t.q[p as usize * self.n + peer].0 += 1;
            }
            SAct::Recv(p, i) => {
                let peer = self.ops[p as usize][i as usize].id.peer as usize;
                t.done[p as usize][i as usize / 64] |= 1 << (i % 64);
                t.q[peer * self.n + p as usize].1 -= 1;
            }
            SAct::Deliver(i, j) => {
                let k = i as usize * self.n + j as usize;
                t.q[k].0 -= 1;
                t.q[k].1 += 1;
            }
        }
        t
    }
    pub fn init(&self) -> SState {
        SState { done: (0..self.n).map(|p| vec![0u64; self.ops[p].len().div_ceil(64).max(1)]).collect(), q: vec![(0, 0); self.n * self.n] }
    }
}

impl Model for Skeleton {
    type State = SState;
    type Action = SAct;
    fn init_states(&self) -> Vec<SState> {
        vec![self.init()]
    }
    fn actions(&self, s: &SState, out: &mut Vec<SAct>) {
        self.enabled(s, out)
    }
    fn next_state(&self, s: &SState, a: SAct) -> Option<SState> {
        Some(self.apply(s, a))
    }
    fn properties(&self) -> Vec<Property<Self>> {
        vec![
            Property::always("no deadlock", |m: &Skeleton, s: &SState| {
                if m.all_done(s) {
                    return true;
                }
                let mut v = vec![];
                m.enabled(s, &mut v);
                !v.is_empty()
            }),
            Property::always("at most one outstanding operation per peer and direction", |m: &Skeleton, s: &SState| m.outstanding_ok(s)),
            Property::sometimes("all parties complete", |m: &Skeleton, s: &SState| m.all_done(s)),
        ]
    }
}

pub struct ModelResult {
    pub states_bfs: usize,
    pub states_dfs: usize,
    pub max_depth: usize,
    pub violations: Vec<String>,
    pub completed: bool,
    pub timed_out: bool,
}

pub fn check_model(skel: &Skeleton, timeout_s: u64) -> ModelResult {
    let threads = crate::util::threads();
    let bfs = skel.clone().checker().threads(threads).timeout(std::time::Duration::from_secs(timeout_s)).spawn_bfs().join();
    let mut violations = vec![];
    for name in ["no deadlock", "at most one outstanding operation per peer and direction"] {
        if let Some(path) = bfs.discovery(name) {
            let acts: Vec<String> = path.into_actions().iter().map(|a| format!("{a:?}")).collect();
            violations.push(format!("{name}: counterexample of {} steps: {}", acts.len(), acts.iter().rev().take(12).rev().cloned().collect::<Vec<_>>().join(" ")));
        }
    }
    let completed = bfs.discovery("all parties complete").is_some();
    let states_bfs = bfs.unique_state_count();
    let max_depth = bfs.max_depth();
    let timed_out = !bfs.is_done();
    // second engine: depth-first, must agree on the number of unique states
    let dfs = skel.clone().checker().threads(threads).timeout(std::time::Duration::from_secs(timeout_s)).spawn_dfs().join();
    let states_dfs = dfs.unique_state_count();
    ModelResult { states_bfs, states_dfs, max_depth, violations, completed, timed_out: timed_out || !dfs.is_done() }
}

// ---------------------------------------------------------------------------------------------
// Conformance (1): every real execution is a word of the model
// ---------------------------------------------------------------------------------------------

/// Replays a real execution on the model; Err = the model rejects it (the skeleton is not a sound
/// abstraction for this configuration).
pub fn accepts(skel: &Skeleton, r: &RunResult<Vec<bool>>) -> Result<usize, String> {
    let n = skel.n;
    // events in logical-time order: issue and completion of every operation
    #[derive(Clone, Copy)]
    enum E {
        Issue(usize, u16),
        Complete(usize, u16),
    }
    let mut evs: Vec<(u64, u8, E)> = vec![];
    for p in 0..n {
        for (id, o) in party_ops(&r.ops, p) {
            let Some(&i) = skel.index[p].get(&id) else {
                return Err(format!("party {p} issued {id:?}, which the skeleton does not contain"));
            };
            evs.push((o.issue_t, 0, E::Issue(p, i)));
            if let Some(t) = o.complete_t
                && o.ok
            {
                evs.push((t, 1, E::Complete(p, i)));
            }
        }
    }
    evs.sort_by_key(|e| (e.0, e.1));
    let mut s = skel.init();
    let mut steps = 0;
    for (_, _, e) in evs {
        match e {
            E::Issue(p, i) => {
                if !skel.issued(&s, p, i as usize) {
                    return Err(format!("party {p} issued op #{i} ({:?} {:?}) although the model's guard {:?} is not complete", skel.ops[p][i as usize].id, skel.ops[p][i as usize].label, skel.ops[p][i as usize].guard));
                }
            }
            E::Complete(p, i) => {
                let o = &skel.ops[p][i as usize];
                let peer = o.id.peer as usize;
                let act = match o.id.dir {
                    Dir::Send => SAct::Send(p as u8, i),
                    Dir::Recv => {
                        // the delivery happened some time before; the model is insensitive to when
                        if s.q[peer * n + p].1 == 0 {
                            if s.q[peer * n + p].0 == 0 {
                                return Err(format!("party {p} completed a receive from {peer} with nothing in flight in the model"));
                            }
                            s = skel.apply(&s, SAct::Deliver(peer as u8, p as u8));
                            steps += 1;
                        }
                        SAct::Recv(p as u8, i)
                    }
                };
                let mut en = vec![];
                skel.enabled(&s, &mut en);
                if !en.contains(&act) {
                    return Err(format!("model does not allow {act:?} ({:?}) at this point", o.label));
                }
                s = skel.apply(&s, act);
                steps += 1;
            }
        }
    }
    Ok(steps)
}

// ---------------------------------------------------------------------------------------------
// Conformance (2): model paths are executed on the real code
// ---------------------------------------------------------------------------------------------

/// One shortest model path per model transition label class that reaches a state of maximal channel
/// occupancy / each action kind, found by plain BFS over the model (bounded number of states).
pub fn cover_paths(skel: &Skeleton, max_states: usize, want: usize) -> Vec<Vec<SAct>> {
    let mut seen: HashMap<SState, (Option<SState>, Option<SAct>)> = HashMap::new();
    let mut q: VecDeque<SState> = VecDeque::new();
    let init = skel.init();
    seen.insert(init.clone(), (None, None));
    q.push_back(init);
    let mut covered: HashMap<SAct, SState> = HashMap::new();
    let mut best_occ: (usize, Option<SState>) = (0, None);
    while let Some(s) = q.pop_front() {
        if seen.len() > max_states {
            break;
        }
        let occ: usize = s.q.iter().map(|(a, b)| *a as usize + *b as usize).sum();
        if occ > best_occ.0 {
            best_occ = (occ, Some(s.clone()));
        }
        let mut en = vec![];
        skel.enabled(&s, &mut en);
        for a in en {
            let t = skel.apply(&s, a);
            covered.entry(a).or_insert_with(|| t.clone());
            if !seen.contains_key(&t) {
                seen.insert(t.clone(), (Some(s.clone()), Some(a)));
                q.push_back(t);
            }
        }
    }
    let path_to = |mut s: SState| -> Vec<SAct> {
        let mut v = vec![];
        while let Some((Some(prev), Some(a))) = seen.get(&s).cloned() {
            v.push(a);
            s = prev;
        }
        v.reverse();
        v
    };
    let mut targets: Vec<SState> = covered.values().cloned().collect();
    // spread: longest paths first carry the most ordering information
    targets.sort_by_key(|s| std::cmp::Reverse(path_to(s.clone()).len()));
    targets.dedup();
    let mut out: Vec<Vec<SAct>> = vec![];
    if let Some(s) = best_occ.1 {
        out.push(path_to(s));
    }
    let step = (targets.len() / want.max(1)).max(1);
    for s in targets.into_iter().step_by(step).take(want) {
        out.push(path_to(s));
    }
    out
}

/// Drives the real code along a model path, then lets it finish; the code must be able to follow
/// (every operation of the path completes, in an order consistent with the path per party) and end
/// with the correct result.
pub fn follow(case: &MpcCase, skel: &Skeleton, seed: u64, path: &[SAct]) -> Result<(), String> {
    let n = case.n();
    let cfg = ExecCfg::new(n, seed).cap(skel.capacity);
    let mut ex: Execution<Vec<bool>> = Execution::start(&cfg, mpc_body(case, 872));
    let done_in_reality = |ex: &Execution<Vec<bool>>, p: usize, i: u16| -> bool {
        let net = ex.net.lock().unwrap();
        let id = skel.ops[p][i as usize].id;
        party_ops(&net.ops, p).iter().any(|(x, o)| *x == id && o.complete_t.is_some())
    };
    for a in path {
        match *a {
            SAct::Deliver(i, j) => {
                // deliver unless the real run already delivered it (deliveries are counted)
                let en = ex.enabled();
                if en.contains(&Action::Deliver(i, j)) {
                    ex.step(Action::Deliver(i, j));
                } else {
                    // the message may not have been sent yet because the sender was not polled: poll it
                    if ex.outcomes[i as usize].is_none() && ex.enabled().contains(&Action::Run(i)) {
                        ex.step(Action::Run(i));
                    }
                    if ex.enabled().contains(&Action::Deliver(i, j)) {
                        ex.step(Action::Deliver(i, j));
                    }
                }
            }
            SAct::Send(p, i) | SAct::Recv(p, i) => {
                let mut guard = 0;
                while !done_in_reality(&ex, p as usize, i) {
                    if ex.outcomes[p as usize].is_some() {
                        return Err(format!("party {p} finished before completing op #{i} of the model path"));
                    }
                    if ex.enabled().contains(&Action::Run(p)) {
                        ex.step(Action::Run(p));
                    } else if let SAct::Recv(..) = a {
                        // needs its delivery first
                        let peer = skel.ops[p as usize][i as usize].id.peer;
                        if ex.enabled().contains(&Action::Deliver(peer, p)) {
                            ex.step(Action::Deliver(peer, p));
                        } else {
                            return Err(format!("real code cannot follow {a:?}: party {p} is not runnable and nothing is in flight from {peer}"));
                        }
                    } else {
                        return Err(format!("real code cannot follow {a:?}: party {p} is not runnable"));
                    }
                    guard += 1;
                    if guard > 50 {
                        return Err(format!("real code did not complete {a:?} after 50 polls"));
                    }
                }
            }
        }
    }
    // finish under the default policy
    loop {
        if ex.all_done() {
            break;
        }
        let en = ex.enabled();
        if en.is_empty() || (!en.iter().any(|a| matches!(a, Action::Run(_))) && !en.iter().any(|a| matches!(a, Action::Deliver(_, j) if ex.outcomes[*j as usize].is_none()))) {
            return Err("deadlock after following the model path".into());
        }
        ex.step(en[0]);
    }
    let exp = case.expected();
    for p in 0..n {
        match ex.outcomes[p].as_ref().unwrap() {
            crate::exec::Outcome::Ok(v) => {
                let want = if case.p_out.contains(&p) { exp.clone() } else { vec![] };
                if *v != want {
                    return Err(format!("party {p} returned {v:?} after following the model path"));
                }
            }
            o => return Err(format!("party {p}: {o:?}")),
        }
    }
    Ok(())
}
