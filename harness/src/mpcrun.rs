//! Running the real `polytune::mpc` under E1.

use std::path::PathBuf;
use std::sync::Arc;

use serde::{Deserialize, Serialize};

use crate::circuits::Circ;
use crate::exec::{Body, ExecCfg, Outcome, RunResult, VChannel};

/// A complete public configuration plus private inputs for one mpc run.
#[derive(Clone, Debug, Serialize, Deserialize)]
pub struct MpcCase {
    pub circ: Circ,
    pub inputs: Vec<Vec<bool>>,
    pub p_eval: usize,
    pub p_out: Vec<usize>,
    /// bit p set = party p spills to a temp dir
    pub tmp_mask: u32,
}

impl MpcCase {
    pub fn n(&self) -> usize {
        self.circ.n()
    }
    pub fn expected(&self) -> Vec<bool> {
        self.circ.eval(&self.inputs)
    }
    pub fn show(&self) -> String {
        format!(
            "{} inputs={:?} p_eval={} p_out={:?} tmp_mask={:#b}",
            self.circ.show(),
            self.inputs
                .iter()
                .map(|v| v.iter().map(|b| if *b { '1' } else { '0' }).collect::<String>())
                .collect::<Vec<_>>(),
            self.p_eval,
            self.p_out,
            self.tmp_mask
        )
    }
}

pub fn tmp_root() -> PathBuf {
    // /dev/shm is a tmpfs: real files, no disk wear; outside /repo and /verif
    let base = if std::path::Path::new("/dev/shm").is_dir() {
        PathBuf::from("/dev/shm")
    } else {
        std::env::temp_dir()
    };
    base.join(format!("pvx-{}", std::process::id()))
}

thread_local! {
    static WORKER_TMP: std::cell::RefCell<Option<PathBuf>> = const { std::cell::RefCell::new(None) };
}

/// A fresh directory per (worker thread, party); created lazily, checked for emptiness by callers.
pub fn party_tmp_dir(worker: usize, party: usize) -> PathBuf {
    let d = tmp_root().join(format!("w{worker}")).join(format!("p{party}"));
    std::fs::create_dir_all(&d).expect("create tmp dir");
    d
}

pub fn dir_is_empty(d: &std::path::Path) -> bool {
    match std::fs::read_dir(d) {
        Ok(mut it) => it.next().is_none(),
        Err(_) => true,
    }
}

pub fn cleanup_tmp_root() {
    let _ = std::fs::remove_dir_all(tmp_root());
}

/// Body running the real mpc for every party of `case`.
pub fn mpc_body(case: &MpcCase, worker: usize) -> Body<Vec<bool>> {
    let circuit = Arc::new(case.circ.to_polytune());
    let case = Arc::new(case.clone());
    Arc::new(move |p: usize, ch: VChannel| {
        let circuit = circuit.clone();
        let case = case.clone();
        Box::pin(async move {
            let tmp = if (case.tmp_mask >> p) & 1 == 1 {
                Some(party_tmp_dir(worker, p))
            } else {
                None
            };
            let r = polytune::mpc(
                &ch,
                &circuit,
                &case.inputs[p],
                case.p_eval,
                p,
                &case.p_out,
                tmp.as_deref(),
            )
            .await;
            r.map_err(|e| format!("{e:?}"))
        })
    })
}

/// Body where party `who` gets its arguments from `alt` instead (for invalid-argument checks).
#[derive(Clone, Debug)]
pub struct PartyArgs {
    pub circ: Arc<polytune::garble_lang::register_circuit::Circuit>,
    pub inputs: Vec<bool>,
    pub p_eval: usize,
    pub p_own: usize,
    pub p_out: Vec<usize>,
}

pub fn mpc_body_args(args: Vec<PartyArgs>) -> Body<Vec<bool>> {
    let args = Arc::new(args);
    Arc::new(move |p: usize, ch: VChannel| {
        let a = args[p].clone();
        Box::pin(async move {
            let r = polytune::mpc(&ch, &a.circ, &a.inputs, a.p_eval, a.p_own, &a.p_out, None).await;
            r.map_err(|e| format!("{e:?}"))
        })
    })
}

pub fn run_case(case: &MpcCase, seed: u64, worker: usize) -> RunResult<Vec<bool>> {
    let cfg = ExecCfg::new(case.n(), seed);
    crate::exec::run_default(&cfg, mpc_body(case, worker))
}

/// The honest-run oracle of C01: parties in p_out return exactly the expected bits, others empty.
pub fn check_honest(case: &MpcCase, r: &RunResult<Vec<bool>>) -> Result<(), String> {
    if r.deadlock {
        return Err(format!("deadlock, stuck parties {:?}", r.stuck));
    }
    if r.cap_hit {
        return Err("action cap hit".into());
    }
    let exp = case.expected();
    for (p, o) in r.outcomes.iter().enumerate() {
        match o {
            Outcome::Ok(v) => {
                if case.p_out.contains(&p) {
                    if *v != exp {
                        return Err(format!("party {p} returned {v:?}, expected {exp:?}"));
                    }
                } else if !v.is_empty() {
                    return Err(format!("non-output party {p} returned {v:?}"));
                }
            }
            other => return Err(format!("party {p}: {other:?}")),
        }
    }
    Ok(())
}

/// All non-empty subsets of 0..n as sorted vectors.
pub fn nonempty_subsets(n: usize) -> Vec<Vec<usize>> {
    (1u32..(1 << n))
        .map(|m| (0..n).filter(|p| (m >> p) & 1 == 1).collect())
        .collect()
}
