//! Exhaustive exploration of event histories on the real server-core actors (E4), deduplicated by
//! the Mazurkiewicz canonical form (per-process projections of the history).

use std::collections::HashSet;
use std::sync::Mutex;

use polytune_server_core::Policy;

use crate::srv::{Ev, MsgPolicy, Snapshot, canonical, run_history};
use crate::util::{Budget, par_map};

pub struct SrvSpace {
    pub n: usize,
    pub concurrency: usize,
    pub policies: Vec<Vec<Policy>>,
    pub seed: u64,
    pub msg_policy: MsgPolicy,
}

pub struct Explored {
    pub states: u64,
    pub transitions: u64,
    pub complete: Vec<(Vec<Ev>, Snapshot)>,
    pub machinery: Vec<String>,
    pub capped: bool,
    pub max_depth: usize,
    /// executed histories that turned out equivalent to an earlier one
    pub merged: u64,
}

/// Breadth-first over histories; `filter` selects which enabled events are followed; `start` is a
/// prefix that is always applied first.  `keep_all` returns every visited node, not only leaves.
pub fn explore(space: &SrvSpace, start: Vec<Ev>, filter: &(dyn Fn(&[Ev], &Ev) -> bool + Sync), budget: &Budget, max_nodes: usize, keep_all: bool) -> Explored {
    // states are merged on the canonical form of the *effective* history (explicit events plus the
    // implicit MPC-message deliveries), which is only known after executing the history
    let visited: Mutex<HashSet<u128>> = Mutex::new(HashSet::new());
    let _ = canonical;
    let mut level: Vec<Vec<Ev>> = vec![start];
    let mut out = Explored { states: 0, transitions: 0, complete: vec![], machinery: vec![], capped: false, max_depth: 0, merged: 0 };
    while !level.is_empty() {
        if budget.exhausted() || out.states as usize > max_nodes {
            out.capped = true;
            break;
        }
        let results = par_map(&level, |_, _, h| run_history(space.n, space.concurrency, space.policies.clone(), h.clone(), space.msg_policy, space.seed, false));
        let mut next = vec![];
        for (h, r) in level.iter().zip(results) {
            out.states += 1;
            out.max_depth = out.max_depth.max(h.len());
            match r {
                Err(e) => out.machinery.push(format!("{e} in history {h:?}")),
                Ok(snap) => {
                    if !visited.lock().unwrap().insert(snap.canonical) {
                        out.merged += 1;
                        continue;
                    }
                    let en: Vec<&Ev> = snap.enabled.iter().filter(|e| filter(h, e)).collect();
                    if en.is_empty() || keep_all {
                        if en.is_empty() || keep_all {
                            out.complete.push((h.clone(), snap.clone()));
                        }
                    }
                    for e in en {
                        out.transitions += 1;
                        let mut h2 = h.clone();
                        h2.push(e.clone());
                        next.push(h2);
                    }
                }
            }
        }
        level = next;
    }
    out
}

/// Determinism self-test of E4: the same walk executed twice must give the same history, the same
/// outputs and the same number of MPC messages; a different seed must still give the same results.
pub fn selftest(seed: u64) -> Result<(), String> {
    use crate::srv::{MsgPolicy, Walk, comp_id, make_policies, run_walk};
    let (sp, _) = crate::checks::c13::spec(2, 0, &[1], vec![true, true]);
    let pols = vec![make_policies(&sp, comp_id(seed, 4242))];
    let run = |s: u64| run_walk(2, 1, pols.clone(), Walk { max_steps: 10_000, ..Default::default() }, MsgPolicy::Explicit, s);
    let a = run(seed)?;
    let b = run(seed)?;
    let sig = |r: &crate::srv::WalkResult| {
        (
            r.history.clone(),
            r.snapshot.outputs.iter().map(|o| (o.party, o.result.clone())).collect::<Vec<_>>(),
            r.snapshot.msgs_delivered,
            r.snapshot.canonical,
        )
    };
    if sig(&a) != sig(&b) {
        return Err("two executions of the same server walk differ".into());
    }
    if a.snapshot.outputs.len() != 2 || a.snapshot.outputs.iter().any(|o| o.result.is_err()) {
        return Err(format!("selftest walk did not produce two results: {:?}", a.snapshot.outputs));
    }
    Ok(())
}
