//! E1 - deterministic executor, controlled channel, owned entropy.
//!
//! Every party's future lives on its own OS thread (so that `rand`'s thread-local generator is a
//! function of (execution seed, party) only); threads are advanced in lock-step by the explorer:
//! exactly one thread runs at any time.  The channel (`VChannel`) implements
//! `polytune::channel::Channel`; nothing is delivered and nobody is polled unless the explorer
//! takes the corresponding action.

use std::cell::Cell;
use std::collections::VecDeque;
use std::future::Future;
use std::panic::{AssertUnwindSafe, catch_unwind};
use std::pin::Pin;
use std::sync::mpsc as smpsc;
use std::sync::{Arc, Mutex};
use std::task::{Context, Poll, Wake, Waker};

use polytune::channel::Channel;

// ---------------------------------------------------------------------------------------------
// Entropy: getrandom custom backend.  ThreadRng (rand 0.9) seeds itself through this function.
// ---------------------------------------------------------------------------------------------

thread_local! {
    static ENTROPY: Cell<(u64, u64, u64)> = const { Cell::new((0, 0xffff, 0)) };
    /// number of getrandom calls served on this thread
    pub static ENTROPY_CALLS: Cell<u64> = const { Cell::new(0) };
}

pub fn set_entropy(seed: u64, party: u64) {
    ENTROPY.with(|e| e.set((seed, party, 0)));
    ENTROPY_CALLS.with(|c| c.set(0));
}

#[inline]
fn splitmix(x: &mut u64) -> u64 {
    *x = x.wrapping_add(0x9E3779B97F4A7C15);
    let mut z = *x;
    z = (z ^ (z >> 30)).wrapping_mul(0xBF58476D1CE4E5B9);
    z = (z ^ (z >> 27)).wrapping_mul(0x94D049BB133111EB);
    z ^ (z >> 31)
}

pub fn str_hash(s: &str) -> u64 {
    let h = blake3::hash(s.as_bytes());
    u64::from_le_bytes(h.as_bytes()[..8].try_into().unwrap())
}

pub fn bytes_hash(b: &[u8]) -> u64 {
    let h = blake3::hash(b);
    u64::from_le_bytes(h.as_bytes()[..8].try_into().unwrap())
}

pub fn mix(a: u64, b: u64) -> u64 {
    let mut s = a ^ b.rotate_left(32) ^ 0xD1B54A32D192ED03;
    let x = splitmix(&mut s);
    let mut t = x ^ b;
    splitmix(&mut t)
}

#[unsafe(no_mangle)]
unsafe extern "Rust" fn __getrandom_v03_custom(
    dest: *mut u8,
    len: usize,
) -> Result<(), getrandom::Error> {
    let (seed, party, ctr) = ENTROPY.with(|e| e.get());
    let mut st = mix(mix(seed, party), ctr);
    let buf = unsafe { std::slice::from_raw_parts_mut(dest, len) };
    for chunk in buf.chunks_mut(8) {
        let v = splitmix(&mut st).to_le_bytes();
        chunk.copy_from_slice(&v[..chunk.len()]);
    }
    ENTROPY.with(|e| e.set((seed, party, ctr + 1)));
    ENTROPY_CALLS.with(|c| c.set(c.get() + 1));
    Ok(())
}

// ---------------------------------------------------------------------------------------------
// Net: the shared channel state
// ---------------------------------------------------------------------------------------------

#[derive(Clone, Copy, Debug, PartialEq, Eq, Hash, PartialOrd, Ord, serde::Serialize, serde::Deserialize)]
pub enum Dir {
    Send,
    Recv,
}

/// One channel operation of a party as the engine issued it.
#[derive(Clone, Debug)]
pub struct OpRec {
    pub party: usize,
    pub peer: usize,
    pub dir: Dir,
    pub label: String,
    pub len: usize,
    /// logical time of first poll
    pub issue_t: u64,
    /// logical time of completion (None = never completed)
    pub complete_t: Option<u64>,
    /// index of the party's poll during which it was issued
    pub issue_poll: u32,
    pub ok: bool,
    /// index into `Net::msgs` for completed ops
    pub msg: Option<usize>,
}

/// A message as put on the wire (after any alteration by the sending adversary).
#[derive(Clone, Debug)]
pub struct MsgRec {
    pub from: usize,
    pub to: usize,
    pub label: String,
    /// ordinal within (from, to, label)
    pub ord: usize,
    /// ordinal within (from, to)
    pub pair_ord: usize,
    /// ordinal among everything `from` sent
    pub sender_ord: usize,
    pub bytes: Arc<Vec<u8>>,
    /// what the sender's code produced, if an adversary altered it
    pub orig: Option<Arc<Vec<u8>>>,
    /// what the receiving code was handed, if a receiving adversary altered it
    pub seen: Option<Arc<Vec<u8>>>,
    pub t_sent: u64,
}

pub type MutFn = Arc<dyn Fn(&[u8]) -> Option<Vec<u8>> + Send + Sync>;

/// How a message is altered.
#[derive(Clone)]
pub enum Mutation {
    Replace(Arc<Vec<u8>>),
    /// computed from the actual bytes; `None` = drop the message entirely (send side only)
    Fn(MutFn),
    /// message is swallowed (never put on the wire); the send still completes
    Drop,
    /// message is sent twice
    Duplicate,
    /// (receive side) the receiver is handed a copy of the message with the same label and ordinal
    /// that it has itself sent to that peer: a rushing peer that echoes the receiver's own round
    /// message.  If the receiver's message is not on the wire yet, nothing is altered.
    Reflect,
}

impl std::fmt::Debug for Mutation {
    fn fmt(&self, f: &mut std::fmt::Formatter<'_>) -> std::fmt::Result {
        match self {
            Mutation::Replace(b) => write!(f, "Replace({} bytes)", b.len()),
            Mutation::Fn(_) => write!(f, "Fn"),
            Mutation::Drop => write!(f, "Drop"),
            Mutation::Duplicate => write!(f, "Duplicate"),
            Mutation::Reflect => write!(f, "Reflect"),
        }
    }
}

/// Where a fault applies: a message of the corrupted party, by direction, peer, label, ordinal.
#[derive(Clone, Debug)]
pub struct Fault {
    pub party: usize,
    pub dir: Dir,
    pub peer: usize,
    pub label: String,
    pub ord: usize,
    pub mutation: Mutation,
}

#[derive(Default)]
struct PairQ {
    inflight: VecDeque<usize>,
    inbox: VecDeque<usize>,
    recv_waiter: Option<Waker>,
    send_waiter: Option<Waker>,
}

pub struct Net {
    pub n: usize,
    pub capacity: Option<usize>,
    q: Vec<PairQ>, // index from*n+to
    pub closed: Vec<bool>,
    pub woken: Vec<bool>,
    pub polls: Vec<u32>,
    pub t: u64,
    pub ops: Vec<OpRec>,
    pub msgs: Vec<MsgRec>,
    pub outstanding: Vec<u32>, // (party*n+peer)*2+dir
    pub max_outstanding: u32,
    pub faults: Vec<Fault>,
    pub faults_hit: Vec<bool>,
    /// party p stops after having sent this many messages
    pub crash_after: Vec<Option<usize>>,
    pub crashed: Vec<bool>,
    pub sent_count: Vec<usize>,
    ord_ctr: std::collections::HashMap<(usize, usize, Dir, String), usize>,
    pair_ctr: Vec<usize>,
    /// bytes delivered to each party (taken from inbox)
    pub bytes_delivered: Vec<usize>,
    pub record_payloads: bool,
    /// per-party hash of its observation history (issues, completions, received contents, poll boundaries)
    pub hist: Vec<u64>,
    pub probes: Vec<crate::hooks::ProbeRec>,
    /// (from, to, k): the k-th send on that pair cannot complete while the hold is set
    pub hold_send: Option<(usize, usize, usize)>,
    /// (from, to, k): the k-th delivery on that pair is not offered while the hold is set
    pub hold_deliver: Option<(usize, usize, usize)>,
    pub delivered_ctr: Vec<usize>,
    pub alloc: Vec<crate::alloc::Stats>,
}

impl Net {
    fn new(n: usize, capacity: Option<usize>) -> Self {
        Net {
            n,
            capacity,
            q: (0..n * n).map(|_| PairQ::default()).collect(),
            closed: vec![false; n],
            woken: vec![true; n],
            polls: vec![0; n],
            t: 0,
            ops: vec![],
            msgs: vec![],
            outstanding: vec![0; n * n * 2],
            max_outstanding: 0,
            faults: vec![],
            faults_hit: vec![],
            crash_after: vec![None; n],
            crashed: vec![false; n],
            sent_count: vec![0; n],
            ord_ctr: Default::default(),
            pair_ctr: vec![0; n * n],
            bytes_delivered: vec![0; n],
            record_payloads: true,
            hist: vec![0x1234_5678_9abc_def0; n],
            probes: vec![],
            hold_send: None,
            hold_deliver: None,
            delivered_ctr: vec![0; n * n],
            alloc: vec![Default::default(); n],
        }
    }
    fn tick(&mut self) -> u64 {
        self.t += 1;
        self.t
    }
    fn observe(&mut self, p: usize, code: u64, a: u64, b: u64) {
        let h = self.hist[p];
        self.hist[p] = mix(mix(h, code ^ (self.polls[p] as u64) << 8), mix(a, b));
    }
    fn next_ord(&mut self, party: usize, peer: usize, dir: Dir, label: &str) -> usize {
        let c = self
            .ord_ctr
            .entry((party, peer, dir, label.to_string()))
            .or_insert(0);
        let r = *c;
        *c += 1;
        r
    }
    fn find_fault(&mut self, party: usize, dir: Dir, peer: usize, label: &str, ord: usize) -> Option<Mutation> {
        for (i, f) in self.faults.iter().enumerate() {
            if f.party == party && f.dir == dir && f.peer == peer && f.ord == ord && f.label == label {
                self.faults_hit[i] = true;
                return Some(f.mutation.clone());
            }
        }
        None
    }
    pub fn inflight_len(&self, from: usize, to: usize) -> usize {
        self.q[from * self.n + to].inflight.len()
    }
    pub fn inbox_len(&self, from: usize, to: usize) -> usize {
        self.q[from * self.n + to].inbox.len()
    }
    fn has_room(&self, from: usize, to: usize) -> bool {
        match self.capacity {
            None => true,
            Some(c) => {
                let q = &self.q[from * self.n + to];
                q.inflight.len() + q.inbox.len() < c
            }
        }
    }
}

/// The channel handed to the engine.
#[derive(Clone)]
pub struct VChannel {
    pub party: usize,
    net: Arc<Mutex<Net>>,
}

#[derive(Debug)]
pub enum VErr {
    Closed,
    BadParty(usize),
}

struct SendFut<'a> {
    ch: &'a VChannel,
    to: usize,
    data: Option<Vec<u8>>,
    op: Option<usize>,
    done: bool,
}

impl Future for SendFut<'_> {
    type Output = Result<(), VErr>;
    fn poll(mut self: Pin<&mut Self>, cx: &mut Context<'_>) -> Poll<Self::Output> {
        let this = &mut *self;
        let me = this.ch.party;
        let mut wake: Vec<Waker> = vec![];
        let res = {
            let mut net = this.ch.net.lock().unwrap();
            let n = net.n;
            if this.to >= n || this.to == me {
                this.done = true;
                return Poll::Ready(Err(VErr::BadParty(this.to)));
            }
            let op = this.op.expect("op registered at creation");
            if net.ops[op].issue_t == 0 {
                let t = net.tick();
                let ip = net.polls[me];
                net.ops[op].issue_t = t;
                net.ops[op].issue_poll = ip;
                let lh = str_hash(&net.ops[op].label);
                let ln = net.ops[op].len as u64;
                net.observe(me, 1, this.to as u64, mix(lh, ln));
                let k = (me * n + this.to) * 2;
                net.outstanding[k] += 1;
                if net.outstanding[k] > net.max_outstanding {
                    net.max_outstanding = net.outstanding[k];
                }
            }
            if net.crashed[me] {
                // a crashed party never makes progress again
                Poll::Pending
            } else if net.closed[this.to] {
                let t = net.tick();
                net.ops[op].complete_t = Some(t);
                net.ops[op].ok = false;
                net.observe(me, 3, this.to as u64, 0);
                let k = (me * n + this.to) * 2;
                net.outstanding[k] -= 1;
                this.done = true;
                Poll::Ready(Err(VErr::Closed))
            } else if net.has_room(me, this.to) && net.hold_send != Some((me, this.to, net.pair_ctr[me * n + this.to])) {
                let label = net.ops[op].label.clone();
                let ord = net.next_ord(me, this.to, Dir::Send, &label);
                let data = this.data.take().expect("polled after completion");
                let mutation = net.find_fault(me, Dir::Send, this.to, &label, ord);
                let mut copies = 1;
                let (bytes, orig): (Option<Vec<u8>>, Option<Vec<u8>>) = match mutation {
                    None => (Some(data), None),
                    Some(Mutation::Replace(b)) => (Some((*b).clone()), Some(data)),
                    Some(Mutation::Fn(f)) => match f(&data) {
                        Some(nb) => (Some(nb), Some(data)),
                        None => (None, Some(data)),
                    },
                    Some(Mutation::Drop) => (None, Some(data)),
                    Some(Mutation::Duplicate) => {
                        copies = 2;
                        (Some(data), None)
                    }
                    Some(Mutation::Reflect) => (Some(data), None),
                };
                let t = net.tick();
                if let Some(bytes) = bytes {
                    let bytes = Arc::new(bytes);
                    let orig = orig.map(Arc::new);
                    for _ in 0..copies {
                        let pair_ord = net.pair_ctr[me * n + this.to];
                        net.pair_ctr[me * n + this.to] += 1;
                        let sender_ord = net.sent_count[me];
                        let idx = net.msgs.len();
                        net.msgs.push(MsgRec {
                            from: me,
                            to: this.to,
                            label: label.clone(),
                            ord,
                            pair_ord,
                            sender_ord,
                            bytes: bytes.clone(),
                            orig: orig.clone(),
                            seen: None,
                            t_sent: t,
                        });
                        net.q[me * n + this.to].inflight.push_back(idx);
                        net.ops[op].msg = Some(idx);
                    }
                }
                net.sent_count[me] += 1;
                net.ops[op].complete_t = Some(t);
                net.ops[op].ok = true;
                net.observe(me, 2, this.to as u64, 1);
                let k = (me * n + this.to) * 2;
                net.outstanding[k] -= 1;
                if let Some(limit) = net.crash_after[me]
                    && net.sent_count[me] >= limit
                {
                    net.crashed[me] = true;
                }
                this.done = true;
                Poll::Ready(Ok(()))
            } else {
                net.q[me * n + this.to].send_waiter = Some(cx.waker().clone());
                Poll::Pending
            }
        };
        for w in wake.drain(..) {
            w.wake();
        }
        res
    }
}

impl Drop for SendFut<'_> {
    fn drop(&mut self) {
        if !self.done
            && let Some(op) = self.op
            && let Ok(mut net) = self.ch.net.lock()
            && net.ops[op].issue_t != 0
            && net.ops[op].complete_t.is_none()
        {
            let n = net.n;
            let k = (self.ch.party * n + self.to) * 2;
            if self.to < n {
                net.outstanding[k] = net.outstanding[k].saturating_sub(1);
            }
        }
    }
}

struct RecvFut<'a> {
    ch: &'a VChannel,
    from: usize,
    op: Option<usize>,
    done: bool,
}

impl Future for RecvFut<'_> {
    type Output = Result<Vec<u8>, VErr>;
    fn poll(mut self: Pin<&mut Self>, cx: &mut Context<'_>) -> Poll<Self::Output> {
        let this = &mut *self;
        let me = this.ch.party;
        let mut wake: Option<Waker> = None;
        let res = {
            let mut net = this.ch.net.lock().unwrap();
            let n = net.n;
            if this.from >= n || this.from == me {
                this.done = true;
                return Poll::Ready(Err(VErr::BadParty(this.from)));
            }
            let op = this.op.expect("op registered at creation");
            let k = (me * n + this.from) * 2 + 1;
            if net.ops[op].issue_t == 0 {
                let t = net.tick();
                let ip = net.polls[me];
                net.ops[op].issue_t = t;
                net.ops[op].issue_poll = ip;
                let lh = str_hash(&net.ops[op].label);
                net.observe(me, 4, this.from as u64, lh);
                net.outstanding[k] += 1;
                if net.outstanding[k] > net.max_outstanding {
                    net.max_outstanding = net.outstanding[k];
                }
            }
            if net.crashed[me] {
                Poll::Pending
            } else if let Some(idx) = net.q[this.from * n + me].inbox.pop_front() {
                wake = net.q[this.from * n + me].send_waiter.take();
                let label = net.ops[op].label.clone();
                let ord = net.next_ord(me, this.from, Dir::Recv, &label);
                let mutation = net.find_fault(me, Dir::Recv, this.from, &label, ord);
                let mut data: Vec<u8> = (*net.msgs[idx].bytes).clone();
                match mutation {
                    Some(Mutation::Replace(b)) => {
                        data = (*b).clone();
                        net.msgs[idx].seen = Some(b);
                    }
                    Some(Mutation::Fn(f)) => {
                        if let Some(nb) = f(&data) {
                            data = nb;
                            net.msgs[idx].seen = Some(Arc::new(data.clone()));
                        }
                    }
                    Some(Mutation::Reflect) => {
                        let from = this.from;
                        if let Some(own) = net.msgs.iter().find(|m| m.from == me && m.to == from && m.label == label && m.ord == ord).map(|m| m.bytes.clone()) {
                            data = (*own).clone();
                            net.msgs[idx].seen = Some(own);
                        } else if let Some(i) = net.faults.iter().position(|f| f.party == me && f.dir == Dir::Recv && f.peer == from && f.ord == ord && f.label == label) {
                            net.faults_hit[i] = false;
                        }
                    }
                    _ => {}
                }
                let t = net.tick();
                net.bytes_delivered[me] += data.len();
                let ch = bytes_hash(&data);
                net.observe(me, 5, this.from as u64, ch);
                net.ops[op].complete_t = Some(t);
                net.ops[op].ok = true;
                net.ops[op].len = data.len();
                net.ops[op].msg = Some(idx);
                net.outstanding[k] -= 1;
                this.done = true;
                Poll::Ready(Ok(data))
            } else if net.closed[this.from] && net.q[this.from * n + me].inflight.is_empty() {
                let t = net.tick();
                net.ops[op].complete_t = Some(t);
                net.ops[op].ok = false;
                net.observe(me, 6, this.from as u64, 0);
                net.outstanding[k] -= 1;
                this.done = true;
                Poll::Ready(Err(VErr::Closed))
            } else {
                net.q[this.from * n + me].recv_waiter = Some(cx.waker().clone());
                Poll::Pending
            }
        };
        if let Some(w) = wake {
            w.wake();
        }
        res
    }
}

impl Drop for RecvFut<'_> {
    fn drop(&mut self) {
        if !self.done
            && let Some(op) = self.op
            && let Ok(mut net) = self.ch.net.lock()
            && net.ops[op].issue_t != 0
            && net.ops[op].complete_t.is_none()
        {
            let n = net.n;
            if self.from < n {
                let k = (self.ch.party * n + self.from) * 2 + 1;
                net.outstanding[k] = net.outstanding[k].saturating_sub(1);
            }
        }
    }
}

impl VChannel {
    fn reg_op(&self, peer: usize, dir: Dir, label: &str, len: usize) -> Option<usize> {
        let mut net = self.net.lock().unwrap();
        let idx = net.ops.len();
        net.ops.push(OpRec {
            party: self.party,
            peer,
            dir,
            label: label.to_string(),
            len,
            issue_t: 0,
            complete_t: None,
            issue_poll: 0,
            ok: false,
            msg: None,
        });
        Some(idx)
    }
}

impl Channel for VChannel {
    type SendError = VErr;
    type RecvError = VErr;

    async fn send_bytes_to(&self, party: usize, data: Vec<u8>, phase: &str) -> Result<(), VErr> {
        let op = self.reg_op(party, Dir::Send, phase, data.len());
        SendFut {
            ch: self,
            to: party,
            data: Some(data),
            op,
            done: false,
        }
        .await
    }

    async fn recv_bytes_from(&self, party: usize, phase: &str) -> Result<Vec<u8>, VErr> {
        let op = self.reg_op(party, Dir::Recv, phase, 0);
        RecvFut {
            ch: self,
            from: party,
            op,
            done: false,
        }
        .await
    }
}

// ---------------------------------------------------------------------------------------------
// Party threads
// ---------------------------------------------------------------------------------------------

#[derive(Clone, Debug, PartialEq, Eq)]
pub enum Outcome<T> {
    Ok(T),
    Err(String),
    Panic(String),
    /// crashed on purpose (fault injection) or never finished
    Crashed,
}

impl<T> Outcome<T> {
    pub fn is_ok(&self) -> bool {
        matches!(self, Outcome::Ok(_))
    }
    pub fn is_err(&self) -> bool {
        matches!(self, Outcome::Err(_))
    }
    pub fn kind(&self) -> &'static str {
        match self {
            Outcome::Ok(_) => "Ok",
            Outcome::Err(_) => "Err",
            Outcome::Panic(_) => "Panic",
            Outcome::Crashed => "Crashed",
        }
    }
}

pub type LocalFut<T> = Pin<Box<dyn Future<Output = Result<T, String>>>>;
/// Builds the party's future on the party's own thread.
pub type Body<T> = Arc<dyn Fn(usize, VChannel) -> LocalFut<T> + Send + Sync>;

enum Cmd {
    Poll,
    Drop,
}

enum Resp<T> {
    Pending,
    Done(Outcome<T>),
    Dropped,
}

struct PWaker {
    net: Arc<Mutex<Net>>,
    p: usize,
}

impl Wake for PWaker {
    fn wake(self: Arc<Self>) {
        self.wake_by_ref();
    }
    fn wake_by_ref(self: &Arc<Self>) {
        if let Ok(mut n) = self.net.lock() {
            n.woken[self.p] = true;
        }
    }
}

struct PartyHandle<T> {
    tx: smpsc::Sender<Cmd>,
    rx: smpsc::Receiver<Resp<T>>,
    join: Option<std::thread::JoinHandle<()>>,
}


#[allow(clippy::too_many_arguments)]
fn party_thread<T: Send + 'static>(
    p: usize,
    seed: u64,
    taps: Vec<crate::hooks::TapSpec>,
    record_probes: bool,
    body: Body<T>,
    net: Arc<Mutex<Net>>,
    rx: smpsc::Receiver<Cmd>,
    tx: smpsc::Sender<Resp<T>>,
) {
    set_entropy(seed, p as u64);
    crate::alloc::reset();
    crate::hooks::party_thread_start(p, net.clone(), taps, record_probes);
    let ch = VChannel {
        party: p,
        net: net.clone(),
    };
    let waker = Waker::from(Arc::new(PWaker { net: net.clone(), p }));
    let mut fut: Option<LocalFut<T>> = None;
    let mut created = false;
    while let Ok(cmd) = rx.recv() {
        match cmd {
            Cmd::Poll => {
                let mut cx = Context::from_waker(&waker);
                crate::alloc::track(true);
                let r = catch_unwind(AssertUnwindSafe(|| {
                    if !created {
                        fut = Some(body(p, ch.clone()));
                        created = true;
                    }
                    fut.as_mut().unwrap().as_mut().poll(&mut cx)
                }));
                crate::alloc::track(false);
                if let Ok(mut nn) = net.lock() {
                    nn.alloc[p] = crate::alloc::stats();
                }
                match r {
                    Ok(Poll::Pending) => {
                        let _ = tx.send(Resp::Pending);
                    }
                    Ok(Poll::Ready(r)) => {
                        let _ = catch_unwind(AssertUnwindSafe(|| drop(fut.take())));
                        let _ = tx.send(Resp::Done(match r {
                            Ok(v) => Outcome::Ok(v),
                            Err(e) => Outcome::Err(e),
                        }));
                        break;
                    }
                    Err(e) => {
                        let msg = if let Some(s) = e.downcast_ref::<&str>() {
                            s.to_string()
                        } else if let Some(s) = e.downcast_ref::<String>() {
                            s.clone()
                        } else {
                            "<non-string panic>".to_string()
                        };
                        // dropping a future that panicked mid-poll may panic again; contain it
                        let f = fut.take();
                        let _ = catch_unwind(AssertUnwindSafe(|| drop(f)));
                        let _ = tx.send(Resp::Done(Outcome::Panic(msg)));
                        break;
                    }
                }
            }
            Cmd::Drop => {
                let f = fut.take();
                let _ = catch_unwind(AssertUnwindSafe(|| drop(f)));
                let _ = tx.send(Resp::Dropped);
                break;
            }
        }
    }
    crate::hooks::party_thread_end(p);
}

// ---------------------------------------------------------------------------------------------
// Execution: the explorer-facing object
// ---------------------------------------------------------------------------------------------

#[derive(Clone, Copy, Debug, PartialEq, Eq, Hash, PartialOrd, Ord, serde::Serialize, serde::Deserialize)]
pub enum Action {
    Deliver(u8, u8),
    Run(u8),
}

#[derive(Clone)]
pub struct ExecCfg {
    pub n: usize,
    pub capacity: Option<usize>,
    pub seed: u64,
    pub faults: Vec<Fault>,
    pub crash_after: Vec<Option<usize>>,
    /// hard cap on actions (machinery guard, never a verdict)
    pub max_actions: usize,
    pub taps: Vec<crate::hooks::TapSpec>,
    pub record_probes: bool,
}

impl ExecCfg {
    pub fn new(n: usize, seed: u64) -> Self {
        ExecCfg {
            n,
            capacity: None,
            seed,
            faults: vec![],
            crash_after: vec![None; n],
            max_actions: 2_000_000,
            taps: vec![],
            record_probes: false,
        }
    }
    pub fn cap(mut self, c: Option<usize>) -> Self {
        self.capacity = c;
        self
    }
}

pub struct Execution<T> {
    pub n: usize,
    pub net: Arc<Mutex<Net>>,
    parties: Vec<PartyHandle<T>>,
    pub outcomes: Vec<Option<Outcome<T>>>,
    pub actions: usize,
}

impl<T: Send + 'static> Execution<T> {
    pub fn start(cfg: &ExecCfg, body: Body<T>) -> Self {
        let mut net = Net::new(cfg.n, cfg.capacity);
        net.faults = cfg.faults.clone();
        net.faults_hit = vec![false; cfg.faults.len()];
        net.crash_after = cfg.crash_after.clone();
        let net = Arc::new(Mutex::new(net));
        let mut parties = vec![];
        for p in 0..cfg.n {
            let (ctx, crx) = smpsc::channel();
            let (rtx, rrx) = smpsc::channel();
            let b = body.clone();
            let nn = net.clone();
            let seed = cfg.seed;
            let taps: Vec<crate::hooks::TapSpec> = cfg.taps.iter().filter(|t| t.party == p).cloned().collect();
            let rp = cfg.record_probes;
            let join = std::thread::Builder::new()
                .name(format!("party{p}"))
                .stack_size(16 << 20)
                .spawn(move || party_thread(p, seed, taps, rp, b, nn, crx, rtx))
                .expect("spawn party thread");
            parties.push(PartyHandle {
                tx: ctx,
                rx: rrx,
                join: Some(join),
            });
        }
        Execution {
            n: cfg.n,
            net,
            parties,
            outcomes: (0..cfg.n).map(|_| None).collect(),
            actions: 0,
        }
    }

    /// Enabled actions in canonical order: deliveries (lexicographic), then runs (ascending).
    pub fn enabled(&self) -> Vec<Action> {
        let net = self.net.lock().unwrap();
        let mut v = vec![];
        for i in 0..self.n {
            for j in 0..self.n {
                if i != j && !net.q[i * self.n + j].inflight.is_empty() && net.capacity_allows_delivery(i, j) && net.hold_deliver != Some((i, j, net.delivered_ctr[i * self.n + j])) {
                    v.push(Action::Deliver(i as u8, j as u8));
                }
            }
        }
        for p in 0..self.n {
            if self.outcomes[p].is_none() && net.woken[p] {
                v.push(Action::Run(p as u8));
            }
        }
        v
    }

    /// Hash of everything that determines the future of this execution under a memoryless policy.
    pub fn state_key(&self) -> u128 {
        let net = self.net.lock().unwrap();
        let mut a = 0x51ed_27f1_0000_0001u64;
        let mut b = 0x9e37_79b9_7f4a_7c15u64;
        for p in 0..self.n {
            let flags = (net.woken[p] as u64) | ((self.outcomes[p].is_some() as u64) << 1) | ((net.closed[p] as u64) << 2);
            a = mix(a, net.hist[p]);
            b = mix(b ^ flags, net.hist[p].rotate_left(17));
            a = mix(a, flags);
        }
        for q in net.q.iter() {
            let l = (q.inflight.len() as u64) << 20 | q.inbox.len() as u64;
            a = mix(a, l);
            b = mix(b, l ^ 0xabcdef);
        }
        ((a as u128) << 64) | b as u128
    }

    pub fn hists(&self) -> Vec<u64> {
        self.net.lock().unwrap().hist.clone()
    }

    pub fn unfinished(&self) -> Vec<usize> {
        (0..self.n).filter(|p| self.outcomes[*p].is_none()).collect()
    }

    pub fn step(&mut self, a: Action) {
        self.actions += 1;
        match a {
            Action::Deliver(i, j) => {
                let (i, j) = (i as usize, j as usize);
                let w = {
                    let mut net = self.net.lock().unwrap();
                    let n = net.n;
                    net.tick();
                    let idx = net.q[i * n + j].inflight.pop_front().expect("deliver on empty");
                    net.delivered_ctr[i * n + j] += 1;
                    net.q[i * n + j].inbox.push_back(idx);
                    net.q[i * n + j].recv_waiter.take()
                };
                if let Some(w) = w {
                    w.wake();
                }
            }
            Action::Run(p) => {
                let p = p as usize;
                {
                    let mut net = self.net.lock().unwrap();
                    net.woken[p] = false;
                    net.polls[p] += 1;
                    net.tick();
                }
                self.parties[p].tx.send(Cmd::Poll).expect("party thread gone");
                let r = self.parties[p].rx.recv().expect("party thread died");
                match r {
                    Resp::Pending => {
                        let crashed = self.net.lock().unwrap().crashed[p];
                        if crashed {
                            self.kill(p);
                        }
                    }
                    Resp::Done(o) => {
                        self.outcomes[p] = Some(o);
                        self.close(p);
                        if let Some(j) = self.parties[p].join.take() {
                            let _ = j.join();
                        }
                    }
                    Resp::Dropped => unreachable!(),
                }
            }
        }
    }

    /// Drop the party's future now (crash) and close its endpoints.
    pub fn kill(&mut self, p: usize) {
        if self.outcomes[p].is_some() {
            return;
        }
        let _ = self.parties[p].tx.send(Cmd::Drop);
        let _ = self.parties[p].rx.recv();
        if let Some(j) = self.parties[p].join.take() {
            let _ = j.join();
        }
        self.outcomes[p] = Some(Outcome::Crashed);
        self.close(p);
    }

    fn close(&mut self, p: usize) {
        let mut wakers = vec![];
        {
            let mut net = self.net.lock().unwrap();
            let n = net.n;
            net.closed[p] = true;
            net.tick();
            for o in 0..n {
                if o == p {
                    continue;
                }
                if let Some(w) = net.q[p * n + o].recv_waiter.take() {
                    wakers.push(w);
                }
                if let Some(w) = net.q[o * n + p].send_waiter.take() {
                    wakers.push(w);
                }
            }
        }
        for w in wakers {
            w.wake();
        }
    }

    pub fn all_done(&self) -> bool {
        self.outcomes.iter().all(|o| o.is_some())
    }

    /// Releases any hold and wakes a sender that was blocked by it.
    pub fn release_holds(&mut self) {
        let w = {
            let mut net = self.net.lock().unwrap();
            let n = net.n;
            net.hold_deliver = None;
            match net.hold_send.take() {
                Some((f, t, _)) => net.q[f * n + t].send_waiter.take(),
                None => None,
            }
        };
        if let Some(w) = w {
            w.wake();
        }
    }
}

impl Net {
    /// A delivery only moves a message between the two halves of the same bounded buffer, so it is
    /// always allowed; kept as a seam.
    fn capacity_allows_delivery(&self, _i: usize, _j: usize) -> bool {
        true
    }
}

impl<T> Drop for Execution<T> {
    fn drop(&mut self) {
        for p in self.parties.iter_mut() {
            let _ = p.tx.send(Cmd::Drop);
        }
        for p in self.parties.iter_mut() {
            if let Some(j) = p.join.take() {
                let _ = j.join();
            }
        }
    }
}

// ---------------------------------------------------------------------------------------------
// Running to completion under a chooser
// ---------------------------------------------------------------------------------------------

#[derive(Clone, Debug)]
pub struct ChoicePoint {
    pub enabled: Vec<Action>,
    pub chosen: usize,
}

pub struct RunResult<T> {
    pub outcomes: Vec<Outcome<T>>,
    pub ops: Vec<OpRec>,
    pub msgs: Vec<MsgRec>,
    pub deadlock: bool,
    /// parties that were still unfinished when no action was enabled
    pub stuck: Vec<usize>,
    pub choices: Vec<ChoicePoint>,
    pub max_outstanding: u32,
    pub actions: usize,
    pub polls: Vec<u32>,
    pub faults_hit: Vec<bool>,
    pub bytes_delivered: Vec<usize>,
    pub cap_hit: bool,
    pub alloc: Vec<crate::alloc::Stats>,
    pub hists: Vec<u64>,
    pub probes: Vec<crate::hooks::ProbeRec>,
}

/// Run an execution to completion.  `chooser(enabled, step index)` returns the index of the
/// action to take; the default schedule is "always 0".
pub fn run<T: Send + 'static>(
    cfg: &ExecCfg,
    body: Body<T>,
    chooser: &mut dyn FnMut(&[Action], &Execution<T>) -> usize,
    record_choices: bool,
) -> RunResult<T> {
    let mut ex = Execution::start(cfg, body);
    let mut choices = vec![];
    let mut deadlock = false;
    let mut cap_hit = false;
    let mut stuck = vec![];
    loop {
        if ex.all_done() {
            break;
        }
        let en = ex.enabled();
        // once all parties are finished we stop; undelivered messages may remain
        if !en.iter().any(|a| matches!(a, Action::Run(_)))
            && !en.iter().any(|a| matches!(a, Action::Deliver(_, j) if ex.outcomes[*j as usize].is_none()))
        {
            deadlock = true;
            stuck = ex.unfinished();
            break;
        }
        if ex.actions >= cfg.max_actions {
            cap_hit = true;
            stuck = ex.unfinished();
            break;
        }
        let c = chooser(&en, &ex);
        if record_choices {
            choices.push(ChoicePoint {
                enabled: en.clone(),
                chosen: c,
            });
        }
        if c >= en.len() {
            // a spurious poll of party (c - en.len()): legal for any executor
            let p = c - en.len();
            assert!(p < ex.n && ex.outcomes[p].is_none(), "chooser returned out-of-range index {c} of {}", en.len());
            ex.step(Action::Run(p as u8));
        } else {
            ex.step(en[c]);
        }
    }
    // hang = unfinished parties; kill them so threads end
    for p in ex.unfinished() {
        ex.kill(p);
        ex.outcomes[p] = Some(Outcome::Crashed);
    }
    let outcomes: Vec<Outcome<T>> = ex.outcomes.iter_mut().map(|o| o.take().unwrap()).collect();
    let net = ex.net.lock().unwrap();
    let r = RunResult {
        outcomes,
        ops: net.ops.clone(),
        msgs: net.msgs.clone(),
        deadlock,
        stuck,
        choices,
        max_outstanding: net.max_outstanding,
        actions: ex.actions,
        polls: net.polls.clone(),
        faults_hit: net.faults_hit.clone(),
        bytes_delivered: net.bytes_delivered.clone(),
        cap_hit,
        alloc: net.alloc.clone(),
        hists: net.hist.clone(),
        probes: net.probes.clone(),
    };
    drop(net);
    r
}

pub fn run_default<T: Send + 'static>(cfg: &ExecCfg, body: Body<T>) -> RunResult<T> {
    run(cfg, body, &mut |_, _| 0, false)
}

/// Replay a recorded list of choice indices, then continue with the default policy.
pub fn run_prefix<T: Send + 'static>(cfg: &ExecCfg, body: Body<T>, prefix: &[usize], record: bool) -> RunResult<T> {
    let mut i = 0;
    run(
        cfg,
        body,
        &mut |en, _| {
            let c = if i < prefix.len() { prefix[i] } else { 0 };
            i += 1;
            assert!(c < en.len(), "replay divergence at step {}: choice {} of {}", i - 1, c, en.len());
            c
        },
        record,
    )
}

/// A stable digest of everything observable in a run (for the determinism self-test).
pub fn run_digest<T: std::fmt::Debug>(r: &RunResult<T>) -> String {
    let mut h = blake3::Hasher::new();
    for m in &r.msgs {
        h.update(&(m.from as u64).to_le_bytes());
        h.update(&(m.to as u64).to_le_bytes());
        h.update(m.label.as_bytes());
        h.update(&(m.bytes.len() as u64).to_le_bytes());
        h.update(&m.bytes);
    }
    for o in &r.outcomes {
        h.update(format!("{o:?}").as_bytes());
    }
    for c in &r.choices {
        h.update(&(c.enabled.len() as u64).to_le_bytes());
        h.update(&(c.chosen as u64).to_le_bytes());
    }
    h.update(&(r.actions as u64).to_le_bytes());
    h.finalize().to_hex().to_string()
}
