//! Shared plumbing: parallel map, evidence, violations, known findings, replay files.

use std::collections::BTreeMap;
use std::path::PathBuf;
use std::sync::Mutex;
use std::sync::atomic::{AtomicBool, AtomicUsize, Ordering};
use std::time::Instant;

use serde_json::{Value, json};

pub fn verif_root() -> PathBuf {
    std::env::var("PVX_ROOT").map(PathBuf::from).unwrap_or_else(|_| PathBuf::from("/verif"))
}

pub fn threads() -> usize {
    std::env::var("PVX_THREADS")
        .ok()
        .and_then(|s| s.parse().ok())
        .unwrap_or_else(|| std::thread::available_parallelism().map(|n| n.get()).unwrap_or(8))
}

/// Parallel map preserving order; `f(worker, index, item)`.  `stop` lets callers abort early.
pub fn par_map<I: Sync, R: Send>(items: &[I], f: impl Fn(usize, usize, &I) -> R + Sync) -> Vec<R> {
    par_map_until(items, f, &AtomicBool::new(false)).into_iter().map(|r| r.unwrap()).collect()
}

pub fn par_map_until<I: Sync, R: Send>(
    items: &[I],
    f: impl Fn(usize, usize, &I) -> R + Sync,
    stop: &AtomicBool,
) -> Vec<Option<R>> {
    let next = AtomicUsize::new(0);
    let out: Mutex<Vec<Option<R>>> = Mutex::new((0..items.len()).map(|_| None).collect());
    let nt = threads().min(items.len().max(1));
    std::thread::scope(|s| {
        for w in 0..nt {
            let next = &next;
            let out = &out;
            let f = &f;
            std::thread::Builder::new()
                .name(format!("worker{w}"))
                .spawn_scoped(s, move || {
                    loop {
                        if stop.load(Ordering::Relaxed) {
                            break;
                        }
                        let i = next.fetch_add(1, Ordering::Relaxed);
                        if i >= items.len() {
                            break;
                        }
                        let r = f(w, i, &items[i]);
                        out.lock().unwrap()[i] = Some(r);
                    }
                })
                .expect("spawn worker");
        }
    });
    out.into_inner().unwrap()
}

#[derive(Clone, Copy, Debug, PartialEq, Eq)]
pub enum Tier {
    Quick,
    Thorough,
}

impl Tier {
    pub fn name(&self) -> &'static str {
        match self {
            Tier::Quick => "quick",
            Tier::Thorough => "thorough",
        }
    }
    pub fn is_thorough(&self) -> bool {
        *self == Tier::Thorough
    }
}

#[derive(Clone, Debug)]
pub struct Violation {
    /// narrow class key matched against known_findings.json
    pub class: String,
    pub detail: String,
    /// everything needed to re-execute the case
    pub replay: Value,
}

pub struct Report {
    pub id: &'static str,
    pub tier: Tier,
    pub seed: u64,
    pub level: &'static str,
    pub start: Instant,
    pub evaluations: u64,
    pub distinct_nontrivial: u64,
    pub rule: String,
    pub samples: Vec<Value>,
    pub extra: BTreeMap<String, Value>,
    pub assumptions: Vec<String>,
    pub violations: Vec<Violation>,
    pub exhaustive: Option<bool>,
    pub machinery_errors: Vec<String>,
}

impl Report {
    pub fn new(id: &'static str, tier: Tier, seed: u64, level: &'static str) -> Self {
        Report {
            id,
            tier,
            seed,
            level,
            start: Instant::now(),
            evaluations: 0,
            distinct_nontrivial: 0,
            rule: String::new(),
            samples: vec![],
            extra: BTreeMap::new(),
            assumptions: vec![],
            violations: vec![],
            exhaustive: None,
            machinery_errors: vec![],
        }
    }
    pub fn sample(&mut self, v: Value) {
        if self.samples.len() < 6 {
            self.samples.push(v);
        }
    }
    pub fn set(&mut self, k: &str, v: Value) {
        self.extra.insert(k.to_string(), v);
    }
    pub fn add(&mut self, k: &str, d: u64) {
        let cur = self.extra.get(k).and_then(|v| v.as_u64()).unwrap_or(0);
        self.extra.insert(k.to_string(), json!(cur + d));
    }
    pub fn violation(&mut self, class: impl Into<String>, detail: impl Into<String>, replay: Value) {
        self.violations.push(Violation {
            class: class.into(),
            detail: detail.into(),
            replay,
        });
    }
    pub fn machinery(&mut self, msg: impl Into<String>) {
        self.machinery_errors.push(msg.into());
    }

    /// Write evidence, print KNOWN-FINDING / VIOLATION lines, return the process exit code.
    pub fn finish(mut self) -> i32 {
        let root = verif_root();
        let known = load_known(self.id);
        // group violations by class
        let mut by_class: BTreeMap<String, Vec<Violation>> = BTreeMap::new();
        for v in self.violations.drain(..) {
            by_class.entry(v.class.clone()).or_default().push(v);
        }
        let mut new_violations = 0usize;
        let mut known_hits = vec![];
        let mut lines = vec![];
        for (class, vs) in &by_class {
            if let Some(k) = known.iter().find(|k| k.matches(class)) {
                known_hits.push(json!({"class": class, "count": vs.len(), "what": k.what}));
                lines.push(format!(
                    "KNOWN-FINDING: property={} {} [{}; {} case(s), e.g. {}]",
                    self.id,
                    k.what,
                    class,
                    vs.len(),
                    vs[0].detail
                ));
            } else {
                new_violations += vs.len();
                let dir = root.join("replays").join(self.id);
                let _ = std::fs::create_dir_all(&dir);
                // one replay file per class (first case), plus up to 4 more
                for (i, v) in vs.iter().take(5).enumerate() {
                    let h = blake3::hash(format!("{}{}{}", class, v.detail, v.replay).as_bytes()).to_hex();
                    let path = dir.join(format!("{}-{}.json", &h.as_str()[..12], i));
                    let body = json!({"property": self.id, "class": class, "detail": v.detail, "case": v.replay});
                    let _ = std::fs::write(&path, serde_json::to_string_pretty(&body).unwrap());
                    lines.push(format!("VIOLATION property={} replay={}", self.id, path.display()));
                    lines.push(format!("  class={} detail={}", class, v.detail));
                }
                if vs.len() > 5 {
                    lines.push(format!("  ... {} more case(s) of class {}", vs.len() - 5, class));
                }
            }
        }
        let wall = self.start.elapsed().as_secs_f64();
        let mut cov = serde_json::Map::new();
        cov.insert("evaluations".into(), json!(self.evaluations));
        cov.insert("distinct_nontrivial".into(), json!(self.distinct_nontrivial));
        cov.insert("rule".into(), json!(self.rule));
        cov.insert("samples".into(), Value::Array(self.samples.clone()));
        if let Some(e) = self.exhaustive {
            cov.insert("exhaustive".into(), json!(e));
        }
        for (k, v) in &self.extra {
            cov.insert(k.clone(), v.clone());
        }
        if !known_hits.is_empty() {
            cov.insert("known_findings_reobserved".into(), Value::Array(known_hits));
        }
        let ev = json!({
            "property_id": self.id,
            "tier": self.tier.name(),
            "seed": self.seed,
            "level": self.level,
            "coverage": Value::Object(cov),
            "assumptions": self.assumptions,
            "wall_s": wall,
            "violations": new_violations,
        });
        let machinery_failed = !self.machinery_errors.is_empty();
        if !machinery_failed {
            let dir = root.join("evidence");
            let _ = std::fs::create_dir_all(&dir);
            let path = dir.join(format!("{}.json", self.id));
            std::fs::write(&path, serde_json::to_string_pretty(&ev).unwrap()).expect("write evidence");
        }
        for l in &lines {
            println!("{l}");
        }
        for m in &self.machinery_errors {
            println!("MACHINERY-ERROR check={} {}", self.id, m);
        }
        println!(
            "{} {}: evaluations={} distinct_nontrivial={} violations={} known_classes={} wall={:.1}s",
            self.id,
            self.tier.name(),
            self.evaluations,
            self.distinct_nontrivial,
            new_violations,
            by_class.len() - by_class.iter().filter(|(c, _)| !known.iter().any(|k| k.matches(c))).count(),
            wall
        );
        if machinery_failed {
            2
        } else if new_violations > 0 {
            1
        } else {
            0
        }
    }
}

pub struct Known {
    pub class: String,
    pub what: String,
}

impl Known {
    fn matches(&self, class: &str) -> bool {
        self.class == class
    }
}

pub fn load_known(id: &str) -> Vec<Known> {
    let p = verif_root().join("known_findings.json");
    let Ok(s) = std::fs::read_to_string(&p) else {
        return vec![];
    };
    let Ok(v) = serde_json::from_str::<Value>(&s) else {
        eprintln!("known_findings.json does not parse; ignoring it");
        return vec![];
    };
    let mut out = vec![];
    if let Some(a) = v.get("findings").and_then(|f| f.as_array()) {
        for f in a {
            if f.get("property").and_then(|p| p.as_str()) == Some(id) {
                out.push(Known {
                    class: f.get("class").and_then(|c| c.as_str()).unwrap_or("").to_string(),
                    what: f.get("what").and_then(|c| c.as_str()).unwrap_or("").to_string(),
                });
            }
        }
    }
    out
}

pub fn seed_from_env() -> u64 {
    std::env::var("VERIF_SEED").ok().and_then(|s| s.parse().ok()).unwrap_or(1)
}

/// Wall-clock budget helper: only ever used to *stop enumerating further* (reported as a cap),
/// never to decide a verdict.
pub struct Budget {
    start: Instant,
    secs: f64,
}

impl Budget {
    pub fn new(secs: f64) -> Self {
        Budget {
            start: Instant::now(),
            secs,
        }
    }
    pub fn exhausted(&self) -> bool {
        self.start.elapsed().as_secs_f64() > self.secs
    }
    pub fn elapsed(&self) -> f64 {
        self.start.elapsed().as_secs_f64()
    }
}

pub fn bits(v: &[bool]) -> String {
    v.iter().map(|b| if *b { '1' } else { '0' }).collect()
}
