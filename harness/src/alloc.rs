//! Counting global allocator.  Counters are thread-local and only active while a party's poll is
//! running on its thread, so the harness's own bookkeeping is not charged to the party.

use std::alloc::{GlobalAlloc, Layout, System};
use std::cell::Cell;

#[derive(Clone, Copy, Debug, Default)]
pub struct Stats {
    pub live: usize,
    pub peak: usize,
    pub largest: usize,
    pub allocs: u64,
}

thread_local! {
    static TRACK: Cell<bool> = const { Cell::new(false) };
    static LIVE: Cell<usize> = const { Cell::new(0) };
    static PEAK: Cell<usize> = const { Cell::new(0) };
    static LARGEST: Cell<usize> = const { Cell::new(0) };
    static ALLOCS: Cell<u64> = const { Cell::new(0) };
}

pub struct Counting;

#[inline]
fn on_alloc(sz: usize) {
    let _ = TRACK.try_with(|t| {
        if t.get() {
            LIVE.with(|l| {
                let v = l.get() + sz;
                l.set(v);
                PEAK.with(|p| {
                    if v > p.get() {
                        p.set(v)
                    }
                });
            });
            LARGEST.with(|l| {
                if sz > l.get() {
                    l.set(sz)
                }
            });
            ALLOCS.with(|a| a.set(a.get() + 1));
        }
    });
}

#[inline]
fn on_dealloc(sz: usize) {
    let _ = TRACK.try_with(|t| {
        if t.get() {
            LIVE.with(|l| l.set(l.get().saturating_sub(sz)));
        }
    });
}

unsafe impl GlobalAlloc for Counting {
    unsafe fn alloc(&self, layout: Layout) -> *mut u8 {
        on_alloc(layout.size());
        unsafe { System.alloc(layout) }
    }
    unsafe fn dealloc(&self, ptr: *mut u8, layout: Layout) {
        on_dealloc(layout.size());
        unsafe { System.dealloc(ptr, layout) }
    }
    unsafe fn alloc_zeroed(&self, layout: Layout) -> *mut u8 {
        on_alloc(layout.size());
        unsafe { System.alloc_zeroed(layout) }
    }
    unsafe fn realloc(&self, ptr: *mut u8, layout: Layout, new_size: usize) -> *mut u8 {
        on_dealloc(layout.size());
        on_alloc(new_size);
        unsafe { System.realloc(ptr, layout, new_size) }
    }
}

pub fn track(on: bool) {
    TRACK.with(|t| t.set(on));
}

pub fn reset() {
    LIVE.with(|l| l.set(0));
    PEAK.with(|l| l.set(0));
    LARGEST.with(|l| l.set(0));
    ALLOCS.with(|l| l.set(0));
}

pub fn stats() -> Stats {
    Stats {
        live: LIVE.with(|l| l.get()),
        peak: PEAK.with(|l| l.get()),
        largest: LARGEST.with(|l| l.get()),
        allocs: ALLOCS.with(|l| l.get()),
    }
}
