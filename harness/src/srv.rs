//! E4 - server-core explorer: the real `PolicyState` actors on a current-thread tokio runtime with a
//! paused clock; the harness owns the RPC transport (`PolicyClient`) and releases every delivery,
//! reply, compile completion, cancel and stray command one event at a time.

use std::collections::HashMap;
use std::sync::{Arc, Condvar, Mutex};
use std::time::Duration;

use polytune::garble_lang::literal::Literal;
use polytune_server_core::{
    ConstsRequest, MpcMsg, OutputError, Policy, PolicyClient, PolicyClientBuilder, PolicyState, PolicyStateHandle, RunRequest, ValidateRequest,
};
use serde::{Deserialize, Serialize};
use tokio::sync::{Semaphore, oneshot};
use url::Url;
use uuid::Uuid;

// ---------------------------------------------------------------------------------------------
// compile gate: process-global callback routed by (computation id, party)
// ---------------------------------------------------------------------------------------------

#[derive(Default)]
pub struct GateSlot {
    /// 0 = not reached, 3 = announced (thread being spawned), 1 = compile thread waiting, 2 = released
    state: Mutex<u8>,
    cv: Condvar,
}

static GATES: Mutex<Option<HashMap<(Uuid, usize), Arc<GateSlot>>>> = Mutex::new(None);

pub fn install_gate_router() {
    static ONCE: std::sync::Once = std::sync::Once::new();
    ONCE.call_once(|| {
        *GATES.lock().unwrap() = Some(HashMap::new());
        polytune_server_core::verif::set_compile_gate(Some(Arc::new(|id: Uuid, party: usize, on_thread: bool| {
            let slot = GATES.lock().unwrap().as_ref().and_then(|m| m.get(&(id, party)).cloned());
            if let Some(slot) = slot {
                let mut st = slot.state.lock().unwrap();
                if !on_thread {
                    // announced: the compile thread is about to be spawned
                    if *st == 0 {
                        *st = 3;
                    }
                    return;
                }
                if *st == 0 || *st == 3 {
                    *st = 1;
                }
                slot.cv.notify_all();
                while *st != 2 {
                    st = slot.cv.wait(st).unwrap();
                }
            }
        })));
    });
}

fn register_gate(id: Uuid, party: usize) -> Arc<GateSlot> {
    let slot = Arc::new(GateSlot::default());
    GATES.lock().unwrap().as_mut().unwrap().insert((id, party), slot.clone());
    slot
}

fn unregister_gate(id: Uuid, party: usize) {
    if let Some(s) = GATES.lock().unwrap().as_mut().unwrap().remove(&(id, party)) {
        // never leave a compile thread parked
        *s.state.lock().unwrap() = 2;
        s.cv.notify_all();
    }
}

// ---------------------------------------------------------------------------------------------
// Hub: pending RPCs, outputs, results
// ---------------------------------------------------------------------------------------------

#[derive(Clone, Copy, Debug, PartialEq, Eq, Hash, PartialOrd, Ord, Serialize, Deserialize)]
pub enum Kind {
    Validate,
    Run,
    Consts,
    Msg,
}

/// Stable identity of an RPC across replays.
#[derive(Clone, Copy, Debug, PartialEq, Eq, Hash, PartialOrd, Ord, Serialize, Deserialize)]
pub struct RpcKey {
    pub pol: u8,
    pub from: u8,
    pub to: u8,
    pub kind: Kind,
    pub occ: u16,
}

#[derive(Clone, Debug, PartialEq, Eq)]
pub enum RpcState {
    Pending,
    InHandler,
    Handled,
    Replied,
}

#[derive(Debug, thiserror::Error, Clone)]
pub enum HErr {
    #[error("injected transport failure")]
    Injected,
    #[error("remote error: {0}")]
    Remote(String),
    #[error("unknown computation id (404)")]
    NotFound,
    #[error("transport shut down")]
    Shutdown,
}

pub enum Payload {
    Validate(ValidateRequest),
    Run(RunRequest),
    Consts(ConstsRequest),
    Msg(MpcMsg),
}

pub struct Rpc {
    pub key: RpcKey,
    pub state: RpcState,
    pub payload: Option<Payload>,
    pub reply_tx: Option<oneshot::Sender<Result<(), HErr>>>,
    pub result: Option<Result<(), HErr>>,
    pub created_seq: u64,
    pub replied_seq: u64,
}

#[derive(Clone, Debug)]
pub struct OutRec {
    pub pol: u8,
    pub party: u8,
    /// Ok(literal as string) / Err(kind)
    pub result: Result<String, String>,
    pub seq: u64,
}

#[derive(Clone, Debug)]
pub struct CallRec {
    pub what: String,
    pub pol: u8,
    pub party: u8,
    pub result: Result<(), String>,
    pub seq: u64,
}

#[derive(Default)]
pub struct HubInner {
    pub rpcs: Vec<Rpc>,
    pub outputs: Vec<OutRec>,
    pub calls: Vec<CallRec>,
    pub seq: u64,
    pub msg_rpcs_issued: u64,
    pub actors_finished: Vec<(u8, u8, bool)>, // (pol, party, panicked)
    /// (pol, party, created seq, finished seq)
    pub actors: Vec<(u8, u8, u64, Option<u64>)>,
    pub shutdown: bool,
    occ: HashMap<(u8, u8, u8, Kind), u16>,
    /// leader-side intervals for C17: (pol, party, seq of first run RPC, seq of end)
    pub run_sent: Vec<(u8, u8, u64)>,
    /// number of times `output` yields to the runtime before it completes
    pub output_yields: u8,
}

pub struct Hub {
    pub inner: Mutex<HubInner>,
    pub comp_ids: Vec<Uuid>,
}

impl Hub {
    fn pol_of(&self, id: &Uuid) -> u8 {
        self.comp_ids.iter().position(|c| c == id).map(|p| p as u8).unwrap_or(255)
    }
    fn bump(&self) -> u64 {
        let mut h = self.inner.lock().unwrap();
        h.seq += 1;
        h.seq
    }
}

#[derive(Clone)]
pub struct HClient {
    hub: Arc<Hub>,
    me: u8,
    pol: u8,
}

#[derive(Clone)]
pub struct HBuilder {
    hub: Arc<Hub>,
    me: u8,
}

impl PolicyClientBuilder for HBuilder {
    type Client = HClient;
    fn new_client(&self, policy: &Policy) -> HClient {
        HClient { hub: self.hub.clone(), me: self.me, pol: self.hub.pol_of(&policy.computation_id) }
    }
}

impl HClient {
    async fn call(&self, to: usize, kind: Kind, payload: Payload) -> Result<(), HErr> {
        let rx = {
            let mut h = self.hub.inner.lock().unwrap();
            if h.shutdown {
                return Err(HErr::Shutdown);
            }
            h.seq += 1;
            let seq = h.seq;
            let occ = {
                let c = h.occ.entry((self.pol, self.me, to as u8, kind)).or_insert(0);
                let o = *c;
                *c += 1;
                o
            };
            if kind == Kind::Msg {
                h.msg_rpcs_issued += 1;
            }
            if kind == Kind::Run && !h.run_sent.iter().any(|r| r.0 == self.pol && r.1 == self.me) {
                let (pol, me) = (self.pol, self.me);
                h.run_sent.push((pol, me, seq));
            }
            let (tx, rx) = oneshot::channel();
            h.rpcs.push(Rpc {
                key: RpcKey { pol: self.pol, from: self.me, to: to as u8, kind, occ },
                state: RpcState::Pending,
                payload: Some(payload),
                reply_tx: Some(tx),
                result: None,
                created_seq: seq,
                replied_seq: 0,
            });
            rx
        };
        rx.await.unwrap_or(Err(HErr::Shutdown))
    }
}

impl PolicyClient for HClient {
    type Error = HErr;
    async fn validate(&self, to: usize, req: ValidateRequest) -> Result<(), HErr> {
        self.call(to, Kind::Validate, Payload::Validate(req)).await
    }
    async fn run(&self, to: usize, req: RunRequest) -> Result<(), HErr> {
        self.call(to, Kind::Run, Payload::Run(req)).await
    }
    async fn consts(&self, to: usize, req: ConstsRequest) -> Result<(), HErr> {
        self.call(to, Kind::Consts, Payload::Consts(req)).await
    }
    async fn msg(&self, to: usize, msg: MpcMsg) -> Result<(), HErr> {
        self.call(to, Kind::Msg, Payload::Msg(msg)).await
    }
    async fn output(&self, _to: Url, result: Result<Literal, OutputError>) -> Result<(), HErr> {
        let r = match result {
            Ok(l) => Ok(format!("{l}")),
            Err(e) => Err(match &e {
                OutputError::Cancelled => "Cancelled".to_string(),
                OutputError::RequestRunError { .. } => "RequestRunError".to_string(),
                OutputError::SendConstsError { .. } => "SendConstsError".to_string(),
                OutputError::CompileError(_) => "CompileError".to_string(),
                OutputError::CompilePanic => "CompilePanic".to_string(),
                OutputError::InvalidInput(_) => "InvalidInput".to_string(),
                OutputError::MpcError(e) => format!("MpcError({})", format!("{e:?}").chars().take(160).collect::<String>()),
                OutputError::InvalidOutput(_) => "InvalidOutput".to_string(),
                other => format!("{other}"),
            }),
        };
        // a notification counts as sent when the call completes; a real client suspends at least
        // once on I/O, which the harness models by `output_yields` cooperative yields
        let yields = self.hub.inner.lock().unwrap().output_yields;
        for _ in 0..yields {
            tokio::task::yield_now().await;
        }
        let (pol, me) = (self.pol, self.me);
        let mut h = self.hub.inner.lock().unwrap();
        h.seq += 1;
        let seq = h.seq;
        h.outputs.push(OutRec { pol, party: me, result: r, seq });
        Ok(())
    }
}

// ---------------------------------------------------------------------------------------------
// Processes (one per party): semaphore + handle map, mirroring polytune-http-server
// ---------------------------------------------------------------------------------------------

pub struct Proc {
    pub party: u8,
    pub sem: Arc<Semaphore>,
    pub concurrency: usize,
    pub handles: Mutex<HashMap<Uuid, PolicyStateHandle>>,
}

/// used by `./check replay` only (one execution per process): what `run_history` gives the clients
pub static REPLAY_OUTPUT_YIELDS: std::sync::atomic::AtomicU8 = std::sync::atomic::AtomicU8::new(0);

pub struct World {
    pub hub: Arc<Hub>,
    pub procs: Vec<Arc<Proc>>,
    pub policies: Vec<Vec<Policy>>, // [pol][party]
    pub gates: Vec<Vec<Arc<GateSlot>>>,
}

impl World {
    pub fn new(n: usize, concurrency: usize, policies: Vec<Vec<Policy>>) -> Arc<World> {
        install_gate_router();
        let comp_ids: Vec<Uuid> = policies.iter().map(|p| p[0].computation_id).collect();
        let hub = Arc::new(Hub { inner: Mutex::new(HubInner { output_yields: REPLAY_OUTPUT_YIELDS.load(std::sync::atomic::Ordering::Relaxed), ..Default::default() }), comp_ids: comp_ids.clone() });
        let procs = (0..n)
            .map(|p| Arc::new(Proc { party: p as u8, sem: Arc::new(Semaphore::new(concurrency)), concurrency, handles: Mutex::new(HashMap::new()) }))
            .collect();
        let gates = comp_ids.iter().map(|id| (0..n).map(|p| register_gate(*id, p)).collect()).collect();
        Arc::new(World { hub, procs, policies, gates })
    }

    pub fn n(&self) -> usize {
        self.procs.len()
    }

    fn get_or_insert(self: &Arc<Self>, party: usize, comp: Uuid) -> PolicyStateHandle {
        let proc_ = self.procs[party].clone();
        let mut hs = proc_.handles.lock().unwrap();
        if let Some(h) = hs.get(&comp) {
            return h.clone();
        }
        let (state, handle) = PolicyState::new(HBuilder { hub: self.hub.clone(), me: party as u8 }, proc_.sem.clone());
        let jh = tokio::spawn(state.start());
        let w = self.clone();
        let pol = self.hub.pol_of(&comp);
        let actor_idx = {
            let mut h = self.hub.inner.lock().unwrap();
            h.seq += 1;
            let seq = h.seq;
            h.actors.push((pol, party as u8, seq, None));
            h.actors.len() - 1
        };
        tokio::spawn(async move {
            let r = jh.await;
            w.procs[party].handles.lock().unwrap().remove(&comp);
            let mut h = w.hub.inner.lock().unwrap();
            h.seq += 1;
            let seq = h.seq;
            h.actors[actor_idx].3 = Some(seq);
            h.actors_finished.push((pol, party as u8, r.is_err()));
        });
        hs.insert(comp, handle.clone());
        handle
    }

    fn existing(&self, party: usize, comp: &Uuid) -> Option<PolicyStateHandle> {
        self.procs[party].handles.lock().unwrap().get(comp).cloned()
    }
}

impl Drop for World {
    fn drop(&mut self) {
        for (pi, id) in self.hub.comp_ids.iter().enumerate() {
            for p in 0..self.procs.len() {
                unregister_gate(*id, p);
            }
            let _ = pi;
        }
    }
}

// ---------------------------------------------------------------------------------------------
// Events
// ---------------------------------------------------------------------------------------------

#[derive(Clone, Debug, PartialEq, Eq, Hash, PartialOrd, Ord, Serialize, Deserialize)]
pub enum Stray {
    /// duplicate schedule with the same policy
    ScheduleSame,
    /// schedule with the policy of another party index
    ScheduleOtherParty(u8),
    ValidateRight,
    ValidateWrongHash,
    Run,
    Consts { from: u64, nonempty: bool },
    Msg { from: u64, empty: bool },
    /// a further validate for a state machine that exists (answered by the harness with NotFound
    /// when it does not)
    ValidateDup { wrong_hash: bool },
}

#[derive(Clone, Debug, PartialEq, Eq, Hash, PartialOrd, Ord, Serialize, Deserialize)]
pub enum Ev {
    Schedule { pol: u8, party: u8 },
    Deliver(RpcKey),
    Reply(RpcKey),
    Fail(RpcKey),
    CompileDone { pol: u8, party: u8 },
    Cancel { pol: u8, party: u8 },
    Stray { pol: u8, party: u8, cmd: Stray },
    /// deliver (and answer) the oldest pending MPC message of one ordered pair
    Msg { pol: u8, from: u8, to: u8 },
}

impl Ev {
    /// processes whose state the event touches (for the Mazurkiewicz canonical form)
    pub fn procs(&self) -> Vec<u8> {
        match self {
            Ev::Schedule { party, .. } | Ev::CompileDone { party, .. } | Ev::Cancel { party, .. } | Ev::Stray { party, .. } => vec![*party],
            Ev::Deliver(k) => vec![k.to],
            Ev::Reply(k) | Ev::Fail(k) => vec![k.from],
            Ev::Msg { from, to, .. } => vec![*from, *to],
        }
    }
}

pub fn canonical(history: &[Ev], n: usize) -> u128 {
    let mut per: Vec<Vec<&Ev>> = vec![vec![]; n];
    for e in history {
        for p in e.procs() {
            if (p as usize) < n {
                per[p as usize].push(e);
            }
        }
    }
    let mut h = blake3::Hasher::new();
    for (p, evs) in per.iter().enumerate() {
        h.update(&[0xff, p as u8]);
        for e in evs {
            h.update(serde_json::to_string(e).unwrap().as_bytes());
            h.update(&[0]);
        }
    }
    u128::from_le_bytes(h.finalize().as_bytes()[..16].try_into().unwrap())
}

// ---------------------------------------------------------------------------------------------
// Driver
// ---------------------------------------------------------------------------------------------

#[derive(Clone, Copy, Debug, PartialEq)]
pub enum MsgPolicy {
    /// deliver MPC messages (FIFO per pair) whenever some are pending, before reporting enabled events
    Eager,
    /// MPC messages are explicit events
    Explicit,
}

pub struct Driver {
    pub w: Arc<World>,
    pub msg_policy: MsgPolicy,
    pub history: Vec<Ev>,
    pub machinery: Option<String>,
    pub msgs_delivered: u64,
    /// explicit events plus a marker for every implicitly delivered MPC message
    pub effective: Vec<Ev>,
}

pub async fn settle() {
    // paused clock: returns exactly when no other task can run
    tokio::time::sleep(Duration::from_millis(1)).await;
}

impl Driver {
    pub fn new(w: Arc<World>, msg_policy: MsgPolicy) -> Self {
        Driver { w, msg_policy, history: vec![], machinery: None, msgs_delivered: 0, effective: vec![] }
    }

    fn find_rpc(&self, key: &RpcKey, state: RpcState) -> Option<usize> {
        let h = self.w.hub.inner.lock().unwrap();
        h.rpcs.iter().position(|r| r.key == *key && r.state == state)
    }

    async fn deliver_idx(&mut self, idx: usize) {
        let (key, payload) = {
            let mut h = self.w.hub.inner.lock().unwrap();
            h.seq += 1;
            let r = &mut h.rpcs[idx];
            r.state = RpcState::InHandler;
            (r.key, r.payload.take().expect("payload"))
        };
        let w = self.w.clone();
        let comp = w.hub.comp_ids[key.pol as usize];
        tokio::spawn(async move {
            let to = key.to as usize;
            let res: Result<(), HErr> = match payload {
                Payload::Validate(req) => {
                    let h = w.get_or_insert(to, comp);
                    h.validate(req).await.map_err(|e| HErr::Remote(format!("{e:?}")))
                }
                Payload::Run(req) => match w.existing(to, &comp) {
                    Some(h) => h.run(req).await.map_err(|e| HErr::Remote(format!("{e:?}"))),
                    None => Err(HErr::NotFound),
                },
                Payload::Consts(req) => match w.existing(to, &comp) {
                    Some(h) => h.consts(req).await.map_err(|e| HErr::Remote(format!("{e:?}"))),
                    None => Err(HErr::NotFound),
                },
                Payload::Msg(m) => match w.existing(to, &comp) {
                    Some(h) => h.mpc_msg(m).await.map_err(|e| HErr::Remote(format!("{e:?}"))),
                    None => Err(HErr::NotFound),
                },
            };
            let mut h = w.hub.inner.lock().unwrap();
            h.seq += 1;
            if let Some(r) = h.rpcs.iter_mut().find(|r| r.key == key && r.state == RpcState::InHandler) {
                r.state = RpcState::Handled;
                r.result = Some(res);
            }
        });
    }

    fn reply_idx(&mut self, idx: usize, forced: Option<Result<(), HErr>>) {
        let mut h = self.w.hub.inner.lock().unwrap();
        h.seq += 1;
        let seq = h.seq;
        let r = &mut h.rpcs[idx];
        let res = forced.or_else(|| r.result.clone()).unwrap_or(Err(HErr::Shutdown));
        r.state = RpcState::Replied;
        r.replied_seq = seq;
        r.payload = None;
        if let Some(tx) = r.reply_tx.take() {
            let _ = tx.send(res);
        }
    }

    /// Answers every MPC message whose handler has returned.
    fn reply_handled_msgs(&mut self) -> usize {
        let idxs: Vec<usize> = {
            let h = self.w.hub.inner.lock().unwrap();
            h.rpcs.iter().enumerate().filter(|(_, r)| r.key.kind == Kind::Msg && r.state == RpcState::Handled).map(|(i, _)| i).collect()
        };
        for i in &idxs {
            self.reply_idx(*i, None);
            self.msgs_delivered += 1;
        }
        idxs.len()
    }

    /// Delivers and answers pending MPC messages FIFO per pair until none can make progress.
    async fn drain_msgs(&mut self) {
        loop {
            settle().await;
            let replied = self.reply_handled_msgs();
            let next = {
                let h = self.w.hub.inner.lock().unwrap();
                // oldest pending message whose pair has no message still inside the target's handler
                h.rpcs.iter().position(|r| {
                    r.key.kind == Kind::Msg
                        && r.state == RpcState::Pending
                        && !h.rpcs.iter().any(|q| q.key.kind == Kind::Msg && q.state == RpcState::InHandler && q.key.pol == r.key.pol && q.key.from == r.key.from && q.key.to == r.key.to)
                })
            };
            match next {
                Some(idx) => {
                    let k = self.w.hub.inner.lock().unwrap().rpcs[idx].key;
                    self.effective.push(Ev::Msg { pol: k.pol, from: k.from, to: k.to });
                    self.deliver_idx(idx).await
                }
                None => {
                    if replied == 0 {
                        break;
                    }
                }
            }
        }
    }

    /// Waits (real time, bounded) until every announced compile thread has reached its gate.
    async fn await_announced_gates(&mut self) {
        let t0 = std::time::Instant::now();
        loop {
            let announced = self.w.gates.iter().flatten().any(|g| *g.state.lock().unwrap() == 3);
            if !announced {
                break;
            }
            if t0.elapsed() > Duration::from_secs(10) {
                self.machinery = Some("an announced compile thread did not reach its gate within 10 s".into());
                break;
            }
            std::thread::sleep(Duration::from_micros(50));
        }
    }

    pub async fn quiesce(&mut self) {
        settle().await;
        self.await_announced_gates().await;
        if self.msg_policy == MsgPolicy::Eager {
            self.drain_msgs().await;
        } else {
            while self.reply_handled_msgs() > 0 {
                settle().await;
            }
        }
        settle().await;
    }

    /// Applies one event.  Err = replay divergence (machinery problem).
    pub async fn apply(&mut self, ev: &Ev) -> Result<(), String> {
        self.history.push(ev.clone());
        self.effective.push(ev.clone());
        match ev {
            Ev::Schedule { pol, party } => {
                let w = self.w.clone();
                let policy = w.policies[*pol as usize][*party as usize].clone();
                let (pol, party) = (*pol, *party);
                self.w.hub.bump();
                tokio::spawn(async move {
                    let h = w.get_or_insert(party as usize, policy.computation_id);
                    let r = h.schedule(policy).await;
                    let mut hub = w.hub.inner.lock().unwrap();
                    hub.seq += 1;
                    let seq = hub.seq;
                    hub.calls.push(CallRec { what: "schedule".into(), pol, party, result: r.map_err(|e| format!("{e:?}")), seq });
                });
            }
            Ev::Deliver(key) => {
                let idx = self.find_rpc(key, RpcState::Pending).ok_or_else(|| format!("replay divergence: no pending rpc {key:?}"))?;
                self.deliver_idx(idx).await;
            }
            Ev::Reply(key) => {
                let idx = self.find_rpc(key, RpcState::Handled).ok_or_else(|| format!("replay divergence: no handled rpc {key:?}"))?;
                self.reply_idx(idx, None);
            }
            Ev::Fail(key) => {
                let idx = self.find_rpc(key, RpcState::Pending).ok_or_else(|| format!("replay divergence: no pending rpc {key:?} to fail"))?;
                self.reply_idx(idx, Some(Err(HErr::Injected)));
            }
            Ev::CompileDone { pol, party } => {
                let slot = self.w.gates[*pol as usize][*party as usize].clone();
                {
                    let mut st = slot.state.lock().unwrap();
                    if *st != 1 {
                        return Err(format!("replay divergence: compile thread of pol {pol} party {party} is not waiting"));
                    }
                    *st = 2;
                    slot.cv.notify_all();
                }
                // the compile thread now runs outside the runtime: wait (real time, bounded) until
                // its result has been consumed, observable as hub activity or the actor stopping
                let before = self.w.hub.inner.lock().unwrap().seq;
                let t0 = std::time::Instant::now();
                loop {
                    settle().await;
                    let now = self.w.hub.inner.lock().unwrap().seq;
                    if now != before {
                        break;
                    }
                    if t0.elapsed() > Duration::from_secs(20) {
                        return Err("compile thread did not finish within 20 s".into());
                    }
                    std::thread::sleep(Duration::from_micros(200));
                }
            }
            Ev::Cancel { pol, party } => {
                let w = self.w.clone();
                let comp = w.hub.comp_ids[*pol as usize];
                let (pol, party) = (*pol, *party);
                let h = w.existing(party as usize, &comp);
                self.w.hub.bump();
                match h {
                    Some(h) => {
                        tokio::spawn(async move {
                            let r = h.cancel().await;
                            let mut hub = w.hub.inner.lock().unwrap();
                            hub.seq += 1;
                            let seq = hub.seq;
                            hub.calls.push(CallRec { what: "cancel".into(), pol, party, result: r.map_err(|e| format!("{e:?}")), seq });
                        });
                    }
                    None => {
                        let mut hub = self.w.hub.inner.lock().unwrap();
                        hub.seq += 1;
                        let seq = hub.seq;
                        hub.calls.push(CallRec { what: "cancel".into(), pol, party, result: Err("NoActor".into()), seq });
                    }
                }
            }
            Ev::Stray { pol, party, cmd } => {
                let w = self.w.clone();
                let comp = w.hub.comp_ids[*pol as usize];
                let (pol, party, cmd) = (*pol, *party, cmd.clone());
                let base = w.policies[pol as usize][party as usize].clone();
                self.w.hub.bump();
                tokio::spawn(async move {
                    let what = format!("stray:{cmd:?}");
                    let r: Result<(), String> = match &cmd {
                        Stray::ScheduleSame => w.get_or_insert(party as usize, comp).schedule(base).await.map_err(|e| format!("{e:?}")),
                        Stray::ScheduleOtherParty(q) => {
                            let p2 = w.policies[pol as usize][*q as usize].clone();
                            w.get_or_insert(party as usize, comp).schedule(p2).await.map_err(|e| format!("{e:?}"))
                        }
                        Stray::ValidateRight => w.get_or_insert(party as usize, comp).validate(ValidateRequest::from(&base)).await.map_err(|e| format!("{e:?}")),
                        Stray::ValidateWrongHash => {
                            let mut v = ValidateRequest::from(&base);
                            v.program_hash = "0000".into();
                            w.get_or_insert(party as usize, comp).validate(v).await.map_err(|e| format!("{e:?}"))
                        }
                        Stray::ValidateDup { wrong_hash } => match w.existing(party as usize, &comp) {
                            Some(h) => {
                                let mut v = ValidateRequest::from(&base);
                                if *wrong_hash {
                                    v.program_hash = "0000".into();
                                }
                                h.validate(v).await.map_err(|e| format!("{e:?}"))
                            }
                            None => Err("NotFound".into()),
                        },
                        Stray::Run => match w.existing(party as usize, &comp) {
                            Some(h) => h.run(RunRequest { computation_id: comp }).await.map_err(|e| format!("{e:?}")),
                            None => Err("NotFound".into()),
                        },
                        Stray::Consts { from, nonempty } => match w.existing(party as usize, &comp) {
                            Some(h) => {
                                let mut consts: polytune_server_core::Consts = Default::default();
                                if *nonempty {
                                    consts.insert("K".to_string(), Literal::NumUnsigned(1, polytune::garble_lang::token::UnsignedNumType::Usize));
                                }
                                h.consts(ConstsRequest { from: *from as usize, computation_id: comp, consts }).await.map_err(|e| format!("{e:?}"))
                            }
                            None => Err("NotFound".into()),
                        },
                        Stray::Msg { from, empty } => match w.existing(party as usize, &comp) {
                            Some(h) => h.mpc_msg(MpcMsg { from: *from as usize, data: if *empty { vec![] } else { vec![1, 2, 3] } }).await.map_err(|e| format!("{e:?}")),
                            None => Err("NotFound".into()),
                        },
                    };
                    let mut hub = w.hub.inner.lock().unwrap();
                    hub.seq += 1;
                    let seq = hub.seq;
                    hub.calls.push(CallRec { what, pol, party, result: r, seq });
                });
            }
            Ev::Msg { pol, from, to } => {
                let idx = {
                    let h = self.w.hub.inner.lock().unwrap();
                    h.rpcs.iter().position(|r| r.key.kind == Kind::Msg && r.state == RpcState::Pending && r.key.pol == *pol && r.key.from == *from && r.key.to == *to)
                }
                .ok_or_else(|| "replay divergence: no pending mpc message".to_string())?;
                self.deliver_idx(idx).await;
            }
        }
        self.quiesce().await;
        Ok(())
    }

    /// Events enabled in the current (quiescent) state.
    pub fn enabled(&self, scheduled: &[(u8, u8)]) -> Vec<Ev> {
        let mut v = vec![];
        let h = self.w.hub.inner.lock().unwrap();
        for (pol, pols) in self.w.policies.iter().enumerate() {
            for party in 0..pols.len() {
                if !scheduled.contains(&(pol as u8, party as u8)) {
                    v.push(Ev::Schedule { pol: pol as u8, party: party as u8 });
                }
            }
        }
        let mut seen_msg_pairs = vec![];
        for r in h.rpcs.iter() {
            match (&r.state, r.key.kind) {
                (RpcState::Pending, Kind::Msg) => {
                    if self.msg_policy == MsgPolicy::Explicit && !seen_msg_pairs.contains(&(r.key.pol, r.key.from, r.key.to)) {
                        seen_msg_pairs.push((r.key.pol, r.key.from, r.key.to));
                        v.push(Ev::Msg { pol: r.key.pol, from: r.key.from, to: r.key.to });
                    }
                }
                (RpcState::Pending, _) => v.push(Ev::Deliver(r.key)),
                (RpcState::Handled, k) if k != Kind::Msg => v.push(Ev::Reply(r.key)),
                _ => {}
            }
        }
        drop(h);
        for (pol, gs) in self.w.gates.iter().enumerate() {
            for (party, g) in gs.iter().enumerate() {
                if *g.state.lock().unwrap() == 1 {
                    v.push(Ev::CompileDone { pol: pol as u8, party: party as u8 });
                }
            }
        }
        v.sort();
        v.dedup();
        v
    }

    pub fn scheduled(&self) -> Vec<(u8, u8)> {
        self.history.iter().filter_map(|e| if let Ev::Schedule { pol, party } = e { Some((*pol, *party)) } else { None }).collect()
    }

    /// Observation only (after the snapshot, not part of the history): which state is every live
    /// actor in?  An empty consts request from party usize::MAX changes nothing where it is accepted.
    pub async fn probe_states(&mut self) -> Vec<(u8, u8, String)> {
        let mut out = vec![];
        let mut handles = vec![];
        for (p, pr) in self.w.procs.iter().enumerate() {
            for (id, h) in pr.handles.lock().unwrap().iter() {
                handles.push((self.w.hub.pol_of(id), p as u8, *id, h.clone()));
            }
        }
        for (pol, p, id, h) in handles {
            let fut = h.consts(ConstsRequest { from: usize::MAX, computation_id: id, consts: Default::default() });
            let r = tokio::time::timeout(Duration::from_millis(5), fut).await;
            let name = match r {
                Err(_) => "Busy".to_string(),
                Ok(Ok(())) => "Validated|SendingConsts|SendingConstsCompleted".to_string(),
                Ok(Err(e)) => {
                    let t = format!("{e:?}");
                    match t.find("state: \"") {
                        Some(i) => t[i + 8..].split('"').next().unwrap_or("?").to_string(),
                        None => t.chars().take(30).collect(),
                    }
                }
            };
            out.push((pol, p, name));
        }
        out
    }

    /// Ends the execution: fails every outstanding RPC so that no task stays parked.
    pub async fn shutdown(&mut self) {
        {
            let mut h = self.w.hub.inner.lock().unwrap();
            h.shutdown = true;
            for r in h.rpcs.iter_mut() {
                if let Some(tx) = r.reply_tx.take() {
                    let _ = tx.send(Err(HErr::Shutdown));
                }
            }
        }
        for gs in self.w.gates.iter() {
            for g in gs {
                let mut st = g.state.lock().unwrap();
                *st = 2;
                g.cv.notify_all();
            }
        }
        settle().await;
    }
}

// ---------------------------------------------------------------------------------------------
// Snapshot of everything observable at the end of a history
// ---------------------------------------------------------------------------------------------

#[derive(Clone, Debug, Default)]
pub struct Snapshot {
    pub outputs: Vec<OutRec>,
    pub calls: Vec<CallRec>,
    pub actors_finished: Vec<(u8, u8, bool)>,
    pub actors_alive: Vec<(u8, u8)>,
    pub permits: Vec<usize>,
    pub pending_rpcs: Vec<(RpcKey, String)>,
    pub msg_rpcs_issued: u64,
    pub msgs_delivered: u64,
    pub enabled: Vec<Ev>,
    pub rpc_kinds_seen: Vec<(RpcKey, String)>,
    pub run_sent: Vec<(u8, u8, u64)>,
    pub seq: u64,
    pub canonical: u128,
    pub actors: Vec<(u8, u8, u64, Option<u64>)>,
    /// (pol, party, seq of the first and of the last MPC-message activity involving the party)
    pub msg_spans: Vec<(u8, u8, u64, u64)>,
    /// state names observed by probing every live actor with an empty consts request from an
    /// unknown party (answered with InvalidState { state } outside the three consts-accepting states)
    pub state_kinds: Vec<(u8, u8, String)>,
}

impl Driver {
    pub fn snapshot(&self) -> Snapshot {
        let h = self.w.hub.inner.lock().unwrap();
        let mut alive = vec![];
        for (p, pr) in self.w.procs.iter().enumerate() {
            for id in pr.handles.lock().unwrap().keys() {
                alive.push((self.w.hub.pol_of(id), p as u8));
            }
        }
        alive.sort();
        let s = Snapshot {
            outputs: h.outputs.clone(),
            calls: h.calls.clone(),
            actors_finished: h.actors_finished.clone(),
            actors_alive: alive,
            permits: self.w.procs.iter().map(|p| p.sem.available_permits()).collect(),
            pending_rpcs: h.rpcs.iter().filter(|r| r.state != RpcState::Replied).map(|r| (r.key, format!("{:?}", r.state))).collect(),
            msg_rpcs_issued: h.msg_rpcs_issued,
            msgs_delivered: self.msgs_delivered,
            enabled: vec![],
            rpc_kinds_seen: h.rpcs.iter().filter(|r| r.key.kind != Kind::Msg).map(|r| (r.key, format!("{:?}", r.result))).collect(),
            run_sent: h.run_sent.clone(),
            seq: h.seq,
            canonical: canonical(&self.effective, self.w.n()),
            actors: h.actors.clone(),
            state_kinds: vec![],
            msg_spans: {
                let mut m: HashMap<(u8, u8), (u64, u64)> = HashMap::new();
                for r in h.rpcs.iter().filter(|r| r.key.kind == Kind::Msg) {
                    for p in [r.key.from, r.key.to] {
                        let e = m.entry((r.key.pol, p)).or_insert((u64::MAX, 0));
                        e.0 = e.0.min(r.created_seq);
                        e.1 = e.1.max(r.created_seq).max(r.replied_seq);
                    }
                }
                let mut v: Vec<_> = m.into_iter().map(|((a, b), (c, d))| (a, b, c, d)).collect();
                v.sort();
                v
            },
        };
        drop(h);
        let mut s = s;
        s.enabled = self.enabled(&self.scheduled());
        s
    }
}

/// Runs one history from scratch on a fresh runtime (and a fresh OS thread, so that the
/// thread-local generator is fresh) and returns the snapshot at its end.
pub fn run_history(
    n: usize,
    concurrency: usize,
    policies: Vec<Vec<Policy>>,
    history: Vec<Ev>,
    msg_policy: MsgPolicy,
    seed: u64,
    finish: bool,
) -> Result<Snapshot, String> {
    // the compile gate is routed by (computation id, party) through a process-global table, and
    // executions run in parallel: give every execution its own computation ids
    static NEXT: std::sync::atomic::AtomicU64 = std::sync::atomic::AtomicU64::new(1);
    let mut policies = policies;
    for pols in policies.iter_mut() {
        let k = NEXT.fetch_add(1, std::sync::atomic::Ordering::Relaxed);
        let id = Uuid::from_u128(((std::process::id() as u128) << 96) | k as u128);
        for p in pols.iter_mut() {
            p.computation_id = id;
        }
    }
    let t = std::thread::Builder::new()
        .name("e4".into())
        .stack_size(16 << 20)
        .spawn(move || {
            crate::exec::set_entropy(seed, 77);
            let rt = tokio::runtime::Builder::new_current_thread().enable_time().start_paused(true).build().map_err(|e| e.to_string())?;
            let out = rt.block_on(async move {
                let w = World::new(n, concurrency, policies);
                let mut d = Driver::new(w, msg_policy);
                d.quiesce().await;
                for ev in &history {
                    d.apply(ev).await?;
                }
                let _ = finish;
                let mut snap = d.snapshot();
                snap.state_kinds = d.probe_states().await;
                d.shutdown().await;
                Ok::<_, String>(snap)
            });
            drop(rt);
            out
        })
        .map_err(|e| e.to_string())?;
    t.join().map_err(|_| "E4 thread panicked".to_string())?
}

// ---------------------------------------------------------------------------------------------
// Policies
// ---------------------------------------------------------------------------------------------

pub fn comp_id(seed: u64, k: u64) -> Uuid {
    let a = crate::exec::mix(seed, 0x1000 + k);
    let b = crate::exec::mix(seed, 0x2000 + k);
    Uuid::from_u128(((a as u128) << 64) | b as u128)
}

pub struct PolicySpec {
    pub program: String,
    pub inputs: Vec<Literal>,
    pub constants: Vec<HashMap<String, Literal>>,
    pub leader: usize,
    pub outputs: Vec<bool>,
}

pub fn make_policies(spec: &PolicySpec, comp: Uuid) -> Vec<Policy> {
    let n = spec.inputs.len();
    let participants: Vec<Url> = (0..n).map(|p| Url::parse(&format!("http://party{p}.invalid:8000")).unwrap()).collect();
    (0..n)
        .map(|p| Policy {
            computation_id: comp,
            participants: participants.clone(),
            program: spec.program.clone(),
            leader: spec.leader,
            party: p,
            input: spec.inputs[p].clone(),
            output: if spec.outputs[p] { Some(Url::parse(&format!("http://out{p}.invalid/output")).unwrap()) } else { None },
            constants: spec.constants[p].clone(),
        })
        .collect()
}

// ---------------------------------------------------------------------------------------------
// Walks: follow a preferred order (a base history) with injected events, in one execution
// ---------------------------------------------------------------------------------------------

#[derive(Clone, Default)]
pub struct Walk {
    /// (position, event): the event is applied when `position` base/auto events have been applied
    pub injections: Vec<(usize, Ev)>,
    /// preferred order of events; when the next preferred event is not enabled the first enabled
    /// event (in canonical order) that passes the filter is taken
    pub prefer: Vec<Ev>,
    pub max_steps: usize,
    /// events never taken automatically
    pub no_auto_compile: bool,
    /// the clients' `output` call suspends this many times before completing
    pub output_yields: u8,
    /// events that are postponed (once) until no other coordination event is enabled
    pub starve: Vec<Ev>,
    /// ... and not even an MPC message
    pub starve_past_msgs: bool,
}

pub struct WalkResult {
    pub history: Vec<Ev>,
    pub snapshot: Snapshot,
    /// per applied event: (permits per party, number of actors alive) after quiescence
    pub steps: Vec<(Vec<usize>, usize)>,
    pub machinery: Option<String>,
}

pub fn auto_event(e: &Ev) -> bool {
    matches!(e, Ev::Schedule { .. } | Ev::Deliver(_) | Ev::Reply(_) | Ev::CompileDone { .. } | Ev::Msg { .. })
}

pub fn run_walk(n: usize, concurrency: usize, policies: Vec<Vec<Policy>>, walk: Walk, msg_policy: MsgPolicy, seed: u64) -> Result<WalkResult, String> {
    static NEXT: std::sync::atomic::AtomicU64 = std::sync::atomic::AtomicU64::new(1 << 40);
    let mut policies = policies;
    for pols in policies.iter_mut() {
        let k = NEXT.fetch_add(1, std::sync::atomic::Ordering::Relaxed);
        let id = Uuid::from_u128(((std::process::id() as u128) << 96) | k as u128);
        for p in pols.iter_mut() {
            p.computation_id = id;
        }
    }
    let t = std::thread::Builder::new()
        .name("e4w".into())
        .stack_size(16 << 20)
        .spawn(move || {
            crate::exec::set_entropy(seed, 77);
            let rt = tokio::runtime::Builder::new_current_thread().enable_time().start_paused(true).build().map_err(|e| e.to_string())?;
            let out = rt.block_on(async move {
                let w = World::new(n, concurrency, policies);
                w.hub.inner.lock().unwrap().output_yields = walk.output_yields;
                let mut d = Driver::new(w, msg_policy);
                d.quiesce().await;
                let mut steps = vec![];
                let mut starved: Vec<Ev> = walk.starve.clone();
                let mut pos = 0usize; // number of non-injected events applied
                let mut pref = 0usize;
                let mut total = 0usize;
                loop {
                    // injections due at this position
                    for (at, ev) in walk.injections.iter() {
                        if *at == pos && !d.history.contains(ev) {
                            // an RPC that an earlier injected failure prevented cannot be failed
                            if let Ev::Fail(key) = ev
                                && d.find_rpc(key, RpcState::Pending).is_none()
                            {
                                continue;
                            }
                            d.apply(ev).await?;
                            steps.push((d.w.procs.iter().map(|p| p.sem.available_permits()).collect(), d.snapshot().actors_alive.len()));
                        }
                    }
                    let en: Vec<Ev> = d.enabled(&d.scheduled()).into_iter().filter(auto_event).collect();
                    if en.is_empty() || total >= walk.max_steps {
                        break;
                    }
                    // starved events are held back while another coordination event (or, with
                    // `starve_past_msgs`, any other event) is enabled; one-shot
                    let held: Vec<Ev> = en.iter().filter(|e| starved.contains(e)).cloned().collect();
                    let en: Vec<Ev> = if held.is_empty() {
                        en
                    } else {
                        let free: Vec<Ev> = en.iter().filter(|e| !held.contains(e)).cloned().collect();
                        let blocks = free.iter().any(|e| walk.starve_past_msgs || !matches!(e, Ev::Msg { .. }));
                        if blocks {
                            free
                        } else {
                            starved.retain(|e| *e != held[0]);
                            vec![held[0].clone()]
                        }
                    };
                    // next preferred event that is enabled (skipping preferred events that can no longer happen)
                    let mut choice = None;
                    let mut k = pref;
                    while k < walk.prefer.len() {
                        if en.contains(&walk.prefer[k]) {
                            choice = Some(walk.prefer[k].clone());
                            pref = k + 1;
                            break;
                        }
                        k += 1;
                    }
                    let ev = choice.unwrap_or_else(|| en[0].clone());
                    d.apply(&ev).await?;
                    steps.push((d.w.procs.iter().map(|p| p.sem.available_permits()).collect(), d.snapshot().actors_alive.len()));
                    pos += 1;
                    total += 1;
                }
                // injections scheduled after the end
                for (at, ev) in walk.injections.iter() {
                    if *at >= pos && !d.history.contains(ev) {
                        if let Ev::Fail(key) = ev
                            && d.find_rpc(key, RpcState::Pending).is_none()
                        {
                            continue;
                        }
                        d.apply(ev).await?;
                    }
                }
                let snap = d.snapshot();
                let history = d.history.clone();
                let machinery = d.machinery.clone();
                d.shutdown().await;
                Ok::<_, String>(WalkResult { history, snapshot: snap, steps, machinery })
            });
            drop(rt);
            out
        })
        .map_err(|e| e.to_string())?;
    t.join().map_err(|_| "E4 thread panicked".to_string())?
}
