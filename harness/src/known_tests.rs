//! Plain unit tests that replay the recorded known findings without any explorer
//! (`cd /verif/harness && cargo test --release`).  They assert that the finding is *present*; when
//! one of them starts failing the defect has been repaired upstream and `known_findings.json`
//! has to be updated.

#![cfg(test)]

use crate::exec::{ExecCfg, run_default};
use crate::hooks::ProbeVal;
use crate::mpcrun::{MpcCase, check_honest, mpc_body};

fn base_case() -> MpcCase {
    let c = crate::checks::c08::circuit(2);
    MpcCase { inputs: c.inputs_from_mask(0b11), circ: c, p_eval: 0, p_out: vec![0, 1], tmp_mask: 0 }
}

/// C04 challenge_before_data:kos_coefficients - the first KOS check coefficient equals the first 16
/// bytes of ChaCha20(seed), seed = xor of the two pairwise 'RNG ver' openings, which are on the wire
/// before the OT matrix is sent.
#[test]
fn known_c04_kos_coefficient_is_fixed_before_the_data() {
    use rand::{RngCore, SeedableRng};
    let case = base_case();
    let mut ec = ExecCfg::new(2, 4242);
    ec.record_probes = true;
    let r = run_default(&ec, mpc_body(&case, 950));
    check_honest(&case, &r).unwrap();
    let open = |from: usize, to: usize| r.msgs.iter().find(|m| m.from == from && m.to == to && m.label == "RNG ver" && m.ord == 0).unwrap();
    let (a, b) = (open(0, 1), open(1, 0));
    let seed: [u8; 32] = std::array::from_fn(|i| a.bytes[8 + i] ^ b.bytes[8 + i]);
    let mut g = rand_chacha::ChaCha20Rng::from_seed(seed);
    let mut chi = [0u8; 16];
    g.fill_bytes(&mut chi);
    let probe = r.probes.iter().find(|p| p.party == 0 && p.name == "kos_chi_send").unwrap();
    let ProbeVal::U128s(v) = &probe.val else { panic!() };
    let first_ot = r.msgs.iter().filter(|m| m.label == "ALSZ_OT_setup").map(|m| m.t_sent).min().unwrap();
    assert_eq!(v[0], u128::from_le_bytes(chi), "prediction from wire data must equal the coefficient actually used (known finding)");
    assert!(a.t_sent.max(b.t_sent) < first_ot, "the openings are on the wire before the OT matrix");
}

/// C07 attack:two_values_xor_to_key:flaand hash^flaand hash - after a flipped HaAND value the LaAND
/// check values opened by the two parties XOR to the victim's global key (the victim then aborts).
#[test]
fn known_c07_failing_laand_check_reveals_the_key() {
    use crate::schema::{NodeMut, Val, apply, decode_msg, encode_vec, msg_type};
    let case = base_case();
    let mut ec = ExecCfg::new(2, 4243);
    ec.record_probes = true;
    let honest = run_default(&ec, mpc_body(&case, 951));
    check_honest(&case, &honest).unwrap();
    // party 1 flips one HaAND value towards party 0; whether the victim consumes it depends on its
    // private bit, so try the first positions and both branches: at least one of them makes the
    // opened LaAND check values XOR to the victim's key
    let m = honest.msgs.iter().find(|m| m.from == 1 && m.to == 0 && m.label == "haand").unwrap();
    let ty = msg_type("haand").unwrap();
    let mut leaks = 0;
    for idx in 0..8usize {
        for branch in 0..2usize {
            let mut v = decode_msg("haand", &m.bytes).unwrap();
            assert!(apply(&ty, &mut v, &[idx, branch], &NodeMut::FlipBool));
            let mut ec2 = ec.clone();
            ec2.faults.push(crate::adv::send_fault(m, std::sync::Arc::new(encode_vec(&v))));
            let r = run_default(&ec2, mpc_body(&case, 951));
            let delta0 = r.probes.iter().find(|p| p.party == 0 && p.name == "delta").map(|p| match &p.val { ProbeVal::U128s(v) => v[0], _ => 0 }).unwrap();
            let h = |from: usize, to: usize| -> Option<Vec<u128>> {
                let m = r.msgs.iter().find(|m| m.from == from && m.to == to && m.label == "flaand hash")?;
                let Val::Vec(xs) = decode_msg("flaand hash", &m.bytes).ok()? else { return None };
                Some(xs.iter().map(|x| if let Val::U128(v) = x { *v } else { 0 }).collect())
            };
            let delta1 = r.probes.iter().find(|p| p.party == 1 && p.name == "delta").map(|p| match &p.val { ProbeVal::U128s(v) => v[0], _ => 0 }).unwrap();
            // the liar knows its own key delta1, so H_0 ^ H_1 = delta0 ^ delta1 gives it delta0
            if let (Some(h0), Some(h1)) = (h(0, 1), h(1, 0))
                && h0[idx] ^ h1[idx] ^ delta1 == delta0
            {
                assert!(r.outcomes[0].is_err(), "the victim detects the failed check and aborts");
                leaks += 1;
            }
        }
    }
    assert!(leaks > 0, "known finding: a consumed HaAND lie makes H_0 xor H_1 xor (the liar's own key) equal the victim's global key");
}
