//! Trace monitors evaluated on recorded executions.

use std::collections::HashMap;

use crate::exec::{Dir, OpRec};

/// (reveal label, commit label)
pub const COMMIT_REVEAL: [(&str, &str); 4] = [
    ("RNG ver", "RNG comm"),
    ("fashare ver", "fashare comm"),
    ("fashare di_bi", "fashare comm"),
    ("flaand hash", "flaand comm"),
];

/// C04(b): in each party's own event list, the issue of the send of a reveal message of round r
/// must come after the completion of the receive of the matching commit message of round r from
/// every other party.  Rounds are matched by per-peer occurrence count of the label.
/// Returns the number of (party, round, reveal label) obligations checked.
pub fn commit_before_reveal(ops: &[OpRec], n: usize, honest: &[usize]) -> Result<u32, String> {
    let mut checked = 0;
    for &p in honest {
        // per (label, peer, dir): ordered list of ops
        let mut by: HashMap<(&str, usize, Dir), Vec<&OpRec>> = HashMap::new();
        let mut mine: Vec<&OpRec> = ops.iter().filter(|o| o.party == p && o.issue_t != 0).collect();
        mine.sort_by_key(|o| o.issue_t);
        for o in mine {
            by.entry((o.label.as_str(), o.peer, o.dir)).or_default().push(o);
        }
        for (reveal, commit) in COMMIT_REVEAL {
            for q in (0..n).filter(|q| *q != p) {
                let Some(sends) = by.get(&(reveal, q, Dir::Send)) else { continue };
                for (round, s) in sends.iter().enumerate() {
                    // the commit of this round must have been received from every other party
                    for q2 in (0..n).filter(|q2| *q2 != p) {
                        let recv = by.get(&(commit, q2, Dir::Recv)).and_then(|v| v.get(round));
                        checked += 1;
                        match recv {
                            Some(r) if r.complete_t.is_some() && r.ok && r.complete_t.unwrap() < s.issue_t => {}
                            Some(r) => {
                                return Err(format!(
                                    "party {p} issued the send of {reveal:?} (round {round}) to {q} at t={} but the receive of {commit:?} from {q2} completed at {:?}",
                                    s.issue_t, r.complete_t
                                ));
                            }
                            None => {
                                return Err(format!(
                                    "party {p} sent {reveal:?} (round {round}) to {q} without ever receiving {commit:?} from {q2}"
                                ));
                            }
                        }
                    }
                }
            }
        }
    }
    Ok(checked)
}
