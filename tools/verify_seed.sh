#!/bin/bash
# usage: verify_seed.sh <ID> <dest-for-demo-in-tree> <demo-src-file> -- <demo command...>
# Confirms in a scratch worktree (outside /repo and /verif) that a seeded change
#  (a) applies and compiles, (b) keeps the 52 stable tests green, (c) its demonstration fails with
#  the change and passes without it.  Writes /tmp/vseed_<ID>.log; removes worktree and build output.
set -u
ID=$1; DEST=$2; SRC=$3; shift 4
W=/tmp/vseed_$ID
LOG=/tmp/vseed_$ID.log
: > $LOG
git -C /repo worktree remove --force $W >/dev/null 2>&1
git -C /repo worktree add --detach $W HEAD >>$LOG 2>&1 || { echo "worktree failed" >>$LOG; exit 2; }
cd $W
export CARGO_NET_OFFLINE=true CARGO_TARGET_DIR=$W/target
if ! git apply /tmp/seed_${ID}_out/patch.diff >>$LOG 2>&1; then echo "RESULT patch-does-not-apply" >>$LOG; cd /; git -C /repo worktree remove --force $W; exit 1; fi
mkdir -p "$(dirname $DEST)"; cp "$SRC" "$DEST"
echo "== demo WITH change: $*" >>$LOG
"$@" >>$LOG 2>&1; WITH=$?
echo "== baseline with change" >>$LOG
rm -f "$DEST"
/verif/tools/run_baseline.sh $W $W/target >>$LOG 2>&1; BASE=$?
# one test builds an example in release mode inside a 300 s timeout and flakes on a cold target dir under load: retry once, warm
if [ $BASE -ne 0 ]; then echo "== baseline retry (warm target dir)" >>$LOG; /verif/tools/run_baseline.sh $W $W/target >>$LOG 2>&1; BASE=$?; fi
cp "$SRC" "$DEST"
git apply -R /tmp/seed_${ID}_out/patch.diff
echo "== demo WITHOUT change" >>$LOG
"$@" >>$LOG 2>&1; WITHOUT=$?
echo "RESULT demo_with_change_exit=$WITH demo_without_change_exit=$WITHOUT baseline_exit=$BASE" >>$LOG
cd /
git -C /repo worktree remove --force $W >/dev/null 2>&1
rm -rf $W
tail -1 $LOG
