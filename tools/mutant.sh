#!/bin/bash
# usage: mutant.sh <patch.diff> <check-id>... ; applies the patch to /repo, runs the quick checks, reverts.
set -u
P=$1; shift
cd /repo || exit 2
if ! git diff --quiet; then echo "repo working tree is dirty"; exit 2; fi
if ! git apply "$P"; then echo "PATCH DOES NOT APPLY"; exit 2; fi
# evidence files must describe the unchanged tree: keep them aside while checks run on the mutant
rm -rf /tmp/evidence_keep && cp -r /verif/evidence /tmp/evidence_keep
for id in "$@"; do
  T=${TIER:-quick}
  ( cd /verif && timeout 1800 ./check "$id" "$T" > /tmp/mutant_$id.log 2>&1; echo "$id exit=$? $(grep -c '^VIOLATION' /tmp/mutant_$id.log) violation lines; $(grep -m1 'class=' /tmp/mutant_$id.log)" )
done
git -C /repo checkout -- . 
rm -rf /verif/evidence && mv /tmp/evidence_keep /verif/evidence
git -C /repo status --short | head -3
