#!/bin/bash
# usage: store_seed.sh <ID> <meta.json content file>
# copies patch, demo and the agent's notes from /tmp/seed_<ID>_out to /verif/seeded/<ID>/, adds meta.json,
# removes the agent's scratch worktree
ID=$1; META=$2
mkdir -p /verif/seeded/$ID
cp /tmp/seed_${ID}_out/patch.diff /verif/seeded/$ID/
rm -rf /verif/seeded/$ID/demo; cp -r /tmp/seed_${ID}_out/demo /verif/seeded/$ID/
[ -f /tmp/seed_${ID}_out/notes.md ] && cp /tmp/seed_${ID}_out/notes.md /verif/seeded/$ID/agent_notes.md
cp "$META" /verif/seeded/$ID/meta.json
python3 -c "import json; json.load(open('/verif/seeded/$ID/meta.json'))" || exit 1
git -C /repo worktree remove --force /tmp/seed_$ID 2>/dev/null; rm -rf /tmp/seed_$ID; git -C /repo worktree prune
echo stored $ID
