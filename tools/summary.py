#!/usr/bin/env python3
"""Prints a markdown table from /verif/evidence/*.json (what the last quick runs measured)."""
import json, glob, os
R=os.path.dirname(os.path.dirname(os.path.abspath(__file__)))
print("| id | tier | level | evaluations | distinct non-trivial | states | transitions | traces vs impl | exhaustive | known classes re-observed | wall s |")
print("|---|---|---|---|---|---|---|---|---|---|---|")
for f in sorted(glob.glob(f"{R}/evidence/*.json")):
    e=json.load(open(f)); c=e["coverage"]
    print(f"| {e['property_id']} | {e['tier']} | {e['level']} | {c.get('evaluations')} | {c.get('distinct_nontrivial')} | {c.get('states','')} | {c.get('transitions','')} | {c.get('traces_validated_against_impl','')} | {c.get('exhaustive','')} | {len(c.get('known_findings_reobserved',[]))} | {e['wall_s']:.1f} |")
