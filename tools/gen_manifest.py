#!/usr/bin/env python3
"""Regenerates /verif/MANIFEST.json from the table below (single source of truth for the interface)."""
import json, os, subprocess
ROOT = os.path.dirname(os.path.dirname(os.path.abspath(__file__)))
ids = [json.loads(l)["id"] for l in open(os.path.join(ROOT, "properties.jsonl"))]

# id -> (category, technique, text, note, design_ref, engine)
CHECKS = {
 "C01": ("exploration", "bounded-exhaustive enumeration of register programs x inputs x roles on the real mpc under an owned executor, vs. an independent evaluator",
         "Every canonical register program up to K gates per input layout, every input assignment, the full role product (p_eval x p_out x tmp_dir mask) on feature circuits for n=2..5 and AND chains on both sides of every batch boundary are executed on the real engine; outputs are compared with a clear-text evaluator written in the harness.",
         "default schedule only (schedules are C12); circuits beyond the size bound only through the structured families; harness-owned entropy", "4.C01", "E1+E3"),
 "C11": ("exploration", "exhaustive enumeration of OT lengths x choice patterns x session orders on the real KOS/ALSZ/Chou-Orlandi code",
         "Every length (thorough: 1..4096; quick: 1..1030 plus all 8k/128k boundaries up to 4097) with constant, alternating and tape-derived choice vectors, constant and index-dependent correlations and both session orders is run through the real kos_ot_sender/kos_ot_receiver pair; every index is compared with x0 xor b*delta.",
         "entry points are the crate's own __bench re-exports; value domain of correlations is sampled by tape", "4.C11", "E1"),
 "C05": ("exploration", "exhaustive role enumeration on the real mpc with a monitor over schema-decoded recorded traffic",
         "Every p_eval x every non-empty p_out for n=2..4 (and output lists with repeated / unsorted indices) on circuits with register reuse/aliasing, outputs that are inputs and duplicated outputs; every message addressed to a party after its input processing is classified and decoded: nothing for non-output parties, only 'output wire shares' / evaluator 'lambda' with Some exactly at output registers for output parties.",
         "stage boundary = completion of the recipient's last input-stage operation on the harness's global logical clock; message labels are the engine's own phase strings", "4.C05", "E1+E3"),
 "C09": ("exploration", "exhaustive enumeration of inputs and an enumerated tape set per public configuration; comparison of recorded per-party channel-operation sequences",
         "For every public configuration, every input assignment under one tape and a set of tapes under one assignment are executed (including two configurations with messages above 64 KiB); per party the ordered list of (peer, direction, label, length, poll index, completion rank) must be identical.",
         "default schedule; coins come from the harness's deterministic entropy backend (tapes are enumerated integers)", "4.C09", "E1"),
 "C12": ("model_checking", "stateless model checking of the real engine: deviation-bounded exhaustive schedule exploration (swap/starve/spurious poll) with state-hash pruning under an owned executor and channel",
         "All schedules with at most k deviations from the default policy (k per configuration in the evidence), capacities 1/2/unbounded, n=2..4, plus a shape sweep (batch-boundary circuits, three global policies) are executed on the real code; a communication skeleton extracted with one starve run per operation is checked for all interleavings with stateright (BFS and DFS agree) and bound to the code both ways; each must terminate with the clear-text result, never have two sends or receives outstanding to one peer, and respect commit-before-reveal ordering. Deadlock detection is exact (no enabled action).",
         "bounded number of deviations on real code; skeleton conformance: every explored real execution is a word of the model, sampled cover paths of the model are followed by the code", "4.C12", "E1"),
 "C18": ("exploration", "exhaustive enumeration of an invalid-argument menu (one argument at a time, each recipient pattern) on the real mpc, counting channel operations",
         "Every value of every argument's invalid menu (party indices at and far beyond the boundary, in last and non-last position, output sets empty / out of range / repeated / unsorted, wrong input lengths, circuits failing validation, inconsistent counters, misplaced or surplus Input instructions) is passed to one party at a time and to all parties; the call must return Err with zero channel operations (or, for repeated output indices, behave as a set), and never panic.",
         "absurd and_ops counters are tried in child processes (an allocation failure aborts)", "4.C18", "E1+E3"),
 "C19": ("model_checking", "explicit-state breadth-first search over operation sequences on the real FileOrMemBuf (file and memory variant) against a reference model, states deduplicated on full hidden state",
         "Breadth-first search to depth 12 (chunk sizes 4 and 1500, the latter exceeding the readers' 8 KiB buffers) over appends (6 sizes) and complete/abandoned item-wise and chunk-wise reads, executed on a real file-backed buffer, a real in-memory buffer and a Vec<Vec<u64>> model; items/order always equal, chunk boundaries equal when appends conform; no directory entry at any time; every new state re-checked by an append-canary differential; plus all unmerged sequences of fixed length and mpc runs under every tmp_dir mask with one tape (equal outputs and traffic).",
         "element type u64 (the engine's types differ only in serde encoding); hidden state exposed by a guarded debug accessor; tmp dirs on tmpfs", "4.C19", "E3+E1"),
 "C20": ("exploration", "exhaustive enumeration of shapes, basis inputs, request lengths and short call sequences against schoolbook references and the aes crate",
         "Transpose: every accepted shape 128 x c (c=16..4096 step 8, also 256/384 rows) with single-bit basis inputs, index-bit matrices, dense inputs and all buffer alignments, AVX2 and portable vs a bit-by-bit reference; clmul: all 128x128 basis pairs plus structured/dense operands, PCLMUL and scalar vs shift-and-xor; fixed-key AES hashes vs the aes crate; AesRng: every length 0..1100 from a fresh generator vs the AES-CTR keystream and every short call sequence (fresh-substring oracle).",
         "AES over 2^128 blocks is not enumerable (structured + tape-derived blocks only); non-AVX2/PCLMUL CPUs are covered by calling the portable code directly", "4.C20", "E3"),
 "C06": ("exploration", "exhaustive enumeration of the honest party's inputs per tape (transcript diff) plus enumeration of a tape set under a harness-owned entropy source",
         "For fixed tapes every input assignment of the honest party is executed and everything it sends is diffed (only the masked-input broadcast, by exactly the input difference, and values downstream of it may change); over an enumerated tape set the party's own mask share per wire is reconstructed from the transcript (both values occur, count within 5.5 sigma for input 0 and 1), probed global keys and 128-bit mask vectors are pairwise distinct, each of the 128 own mask shares of the canary configuration takes both values over the tapes, and a 128-bit canary input / own-share vector is searched in the traffic at every bit offset.",
         "the frequency clause is a count over enumerated tapes, not decided by exhaustive exploration; delta is read through a guarded probe", "4.C06", "E1"),
 "C08": ("fault_enumeration", "exhaustive enumeration of single message alterations (byte-level and structure-aware) and crash points of one corrupted party against the real engine, in worker subprocesses",
         "For every message ordinal of the corrupted sender every byte-level class and every count-changing structural mutation at every nesting level, every crash point, every duplicated message and commit-to-malformed-opening chains are executed; each honest party must reach Ok/Err (no panic, no 'no enabled action' hang) with bounded heap. Aborts are attributed to their case through subprocess isolation.",
         "one corrupted party, single fault (thorough adds malformed-then-crash pairs); heap accounting per party thread", "4.C08", "E1+E2"),
 "C10": ("exploration", "enumeration of an (n, batch length, operand pattern) lattice through guarded API wrappers on the real preprocessing, relations recomputed from plain integers for every index and ordered pair",
         "fashare for n=2..5 over dense small lengths and block/batch boundaries, fashare+beaver_aand for n=2..4 with fresh, xor-combined and constant-forced operands (thorough: bucket sizes 5/4/3), the real trusted dealer with harness-side parties, and shared-coin agreement; MAC/key and AND relations are checked for every index and ordered pair.",
         "wrappers pass arguments through unchanged; default schedule", "4.C10", "E1"),
 "C03": ("fault_enumeration", "exhaustive enumeration of single-field alterations of every online-phase message (structure-aware, per recipient) plus a tap-based forged garbled share, against the real engine",
         "Every authenticated field of every online message of the corrupted party (input/output mask shares and MACs, masked-input equivocation, wire labels feeding AND gates, every garbled row, revealed output values and labels, broadcast echo), at every position (quick: first/middle/last of long vectors), for corrupted garbler and evaluator, n=2,3, and a garbler that garbles a flipped share bit into rows that still decrypt; the honest consumer must return Err.",
         "one corrupted party, one altered field per execution; unread-by-design fields (inactive rows, labels not feeding an AND gate) are counted as trivial", "4.C03", "E1+E2"),
 "C04": ("fault_enumeration", "exhaustive enumeration of single-field alterations of every preprocessing message with per-field consumption rules; trace monitors over model-checked schedules; wire-only challenge predictor compared with probes",
         "(a) every field of every coin-toss, base-OT, OT-extension, aBit, aShare, HaAND/LaAND, bucket and Beaver message of the corrupted party, to one recipient and consistently to all, pairs of lies inside one message, commit-then-open chains (commitment recomputed for the altered opening), plus tap-based persistent liars (one and two lies): honest recipients of a consumed bad value return Err (by a check of their own where they hold the key/commitment); (b) reveal-after-all-commits on every schedule explored by the C12 explorer; (c) challenges recomputed from wire data available before the checked data is sent, compared with the challenge actually used, and reuse between checks.",
         "negligible-probability forgeries treated as impossible; three protocol-flow findings (challenge fixed before data) are listed in known_findings.json", "4.C04", "E1+E2"),
 "C02": ("fault_enumeration", "exhaustive enumeration of single structure-aware alterations and omissions of every message of one corrupted party (all phases) plus tap-based consistent lies, with an output-set oracle computed by enumeration of the corrupted inputs",
         "For circuits whose outputs pin down the corrupted party's effective input, every message of the corrupted evaluator/garbler is altered at every field (bit flips, omissions, empty vectors; thorough: full menu and all pairs of online-phase faults), per recipient and consistently, plus pairs of lies inside one message, consistent (pair) lies through taps and scripted chains (equivocating evaluator with fixed-up reveal); every honest output party must return Err or a value in {f(x_honest, x')}, and all accepted values must be explained by one x'.",
         "single corrupted party, one fault per execution (plus taps); quick uses the reduced mutation menu", "4.C02", "E1+E2"),
 "C07": ("fault_enumeration", "XOR-closure search for the victim's probed key over all bytes on the wire, on honest runs, on every enumerated single alteration that keeps the run going, and on a scripted persistent attacker",
         "With d the victim's global key: d must not occur at any byte offset (either byte order), no two 128-bit windows and no three decoded 128-bit fields of the pooled traffic (plus what peers hold in the honest run of the same tape) may XOR to d; evaluated on honest runs (NOT gates on inputs, AND outputs, outputs; n=2..4; plus the label census: exactly one garbled row per (AND gate, garbler) opens under the evaluator's labels), on every fault of the C02/C04 menu after which the victim keeps sending, and on the check-bit liar with fixed-up reply.",
         "label census on honest runs only; one by-design leak of the failing LaAND check is a known finding", "4.C07", "E1+E2"),
 "C13": ("model_checking", "explicit-state exploration of event histories on the real PolicyState actors (current-thread tokio, paused clock, owned RPC transport), merged by Mazurkiewicz canonical form",
         "All orders of schedule injections, deliveries and answers of every validate/run/consts RPC and compile completions are enumerated on the real actors for n=2 (every leader, constants from none/one/all, destination subsets) and n=3; at the end of every maximal history every schedule call returned Ok, every destination received exactly the clear-text result once, all state machines stopped without panic and all permits are back.",
         "MPC messages are delivered eagerly FIFO per pair and every implicit delivery is part of the canonical form on which histories are merged; quiescence = tokio paused-clock idleness plus the guarded compile gate", "4.C13", "E4"),
 "C14": ("fault_enumeration", "enumeration of every stray command kind x target x position of a complete history on the real actors",
         "At every prefix length among coordination events (and spaced positions during MPC) of the default history for n=2 and n=3, each stray command (duplicate/foreign schedule, run, consts, mpc_msg with in- and out-of-range senders) is sent to each party; no state machine may panic, an unknown sender is never accepted, and when the stray command was rejected all end-of-history assertions of C13 still hold.",
         "base = default-order history; stray commands that are valid for the current state are only checked for panics", "4.C14", "E4"),
 "C15": ("model_checking", "enumeration of cancel injection points over the event history (incl. the compile window and MPC messages) on the real actors under an owned scheduler",
         "For every party, cancel is injected after every k-th event of the default history (coordination events, compile completions, MPC messages); once cancel returned Ok the state machine has stopped, the destination got exactly one notification (Cancelled or the real result) and nothing later, and the permit is back.",
         "current-thread runtime only; both orders of 'task polled' vs 'notify' are reached through the compile gate", "4.C15", "E4"),
 "C16": ("model_checking", "explicit-state exploration of all event histories with one mismatching or ill-typed policy on the real actors",
         "For every follower with a different program or leader field and every party with an ill-typed program (n=2,3, every leader in thorough), all histories are enumerated; both schedule calls end in an error, zero MPC messages are ever issued, nobody is sent a successful result, permits are back.",
         "two self-declared leaders are out of scope", "4.C16", "E4"),
 "C17": ("model_checking", "enumeration of histories of policy batches sharing a semaphore on the real actors: default and reverse order, every single coordination RPC failed once, cancels at spaced positions",
         "Batches of k two-party policies with alternating leaders (k<=4 quick, <=8 thorough; concurrency 1..3) are run on the real actors; the MPC-traffic intervals of the computations a party leads never overlap beyond its concurrency, the full budget is back and everything stopped at the end, and after each single failed validate/run/consts RPC the policy ends at the caller with an error notification and its permit returned.",
         "walks around the default order rather than all interleavings of a batch; two parties", "4.C17", "E4"),
}

NOT_YET = "check not built yet (construction in progress, see DESIGN.md section 8)"

def main():
    hooks_commits = []
    try:
        out = subprocess.run(["git", "-C", "/repo", "log", "--format=%H %s"], capture_output=True, text=True).stdout
        for l in out.splitlines():
            h, _, s = l.partition(" ")
            if s.startswith("verif-hook:"):
                hooks_commits.append(h)
    except Exception:
        pass
    m = {
        "version": 1,
        "setup_cmd": "cd /verif/harness && CARGO_NET_OFFLINE=true cargo build --release --offline",
        "hooks": {
            "guard": "cargo feature __verif (on polytune and on polytune-server-core)",
            "enable": "the harness crate /verif/harness depends on /repo by path with features __bench (pre-existing) and __verif; ./check rebuilds from /repo's working tree on every run",
            "baseline_off_cmd": "cd /repo && cargo test --workspace --no-fail-fast --offline",
            "source_commits": hooks_commits,
            "add_only": True,
        },
        "engines": [
            {"name": "E4", "path": "harness/src/srv.rs", "serves_properties": ["C13","C14","C15","C16","C17"], "kind_free_text": "explicit-state exploration of the real tokio actors of polytune-server-core: current-thread runtime with paused clock, harness-owned PolicyClient transport releasing one delivery/reply/compile completion/cancel at a time, replay-based state reconstruction, Mazurkiewicz canonical form"},
            {"name": "E1", "path": "harness/src/exec.rs", "serves_properties": ["C01","C02","C03","C04","C05","C06","C07","C08","C09","C10","C11","C12","C18","C19"], "kind_free_text": "stateless exploration of the real async engine: owned executor (one OS thread per party, lock-step), scheduler-controlled Channel, deterministic entropy backend"},
        ],
        "checks": [],
        "not_applicable": [],
        "notes": "All checks: cwd /verif, ./check <ID> <quick|thorough>; exit 0 held / 1 violation (VIOLATION line) / 2 machinery problem (never a verdict). Known findings: /verif/known_findings.json.",
    }
    for i in ids:
        if i in CHECKS:
            cat, tech, text, note, ref, eng = CHECKS[i]
            m["checks"].append({
                "property_id": i,
                "quick_cmd": f"./check {i} quick",
                "thorough_cmd": f"./check {i} thorough",
                "evidence_file": f"/verif/evidence/{i}.json",
                "replay_cmd_template": "./check replay {path}",
                "engine": eng,
                "level_claimed": {"category": cat, "text": text, "design_ref": ref},
                "level_note": note,
                "technique": tech,
            })
        else:
            m["not_applicable"].append({"property_id": i, "reason": NOT_YET})
    json.dump(m, open(os.path.join(ROOT, "MANIFEST.json"), "w"), indent=1)
    print("checks:", [c["property_id"] for c in m["checks"]])

main()
