#!/usr/bin/env python3
import json, sys, glob, os
import jsonschema
R=os.path.dirname(os.path.dirname(os.path.abspath(__file__)))
jsonschema.validate(json.load(open(f'{R}/MANIFEST.json')), json.load(open('/root/.vp/MANIFEST.schema.json')))
es=json.load(open('/root/.vp/EVIDENCE.schema.json'))
for f in sorted(glob.glob(f'{R}/evidence/*.json')):
    jsonschema.validate(json.load(open(f)), es)
    print('ok', os.path.basename(f))
print('manifest ok')
