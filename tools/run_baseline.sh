#!/bin/bash
# usage: run_baseline.sh <repo_dir> [target_dir]
# Runs the repository's test suite (guard OFF, default features) and compares with the 52 stable tests
# of /root/.vp/BASELINE.json.  Prints BASELINE-OK or the list of stable tests that did not pass.
set -u
REPO=${1:-/repo}
TGT=${2:-$REPO/target}
cd "$REPO" || exit 2
export CARGO_NET_OFFLINE=true CARGO_TARGET_DIR="$TGT"
OUT=$(mktemp)
# tests bind fixed TCP ports (8000..), so concurrent runs in one sandbox must be serialised
exec 9>/tmp/polytune-baseline.lock
flock 9
cargo nextest run --workspace --no-fail-fast --tool-config-file pb:/w/lib/nextest.toml --profile pb --test-threads 8 --offline >"$OUT" 2>&1
J="$TGT/nextest/pb/junit.xml"
python3 - "$J" "$OUT" <<'PY'
import json, sys, xml.etree.ElementTree as ET
stable = json.load(open('/root/.vp/BASELINE.json'))['stable_pass']
try:
    root = ET.parse(sys.argv[1]).getroot()
except Exception as e:
    print("BASELINE-FAIL could not parse junit:", e); print(open(sys.argv[2]).read()[-3000:]); sys.exit(1)
passed=set()
for ts in root.iter('testsuite'):
    suite = ts.get('name')
    for tc in ts.iter('testcase'):
        ok = tc.find('failure') is None and tc.find('error') is None
        name = f"{suite}::{tc.get('name')}"
        if ok: passed.add(name)
missing=[t for t in stable if t not in passed]
if missing:
    print("BASELINE-FAIL", len(missing), "stable tests did not pass:"); [print("  ", m) for m in missing]; sys.exit(1)
print("BASELINE-OK", len(stable), "stable tests passed;", len(passed), "passed in total")
PY
RC=$?
rm -f "$OUT"
exit $RC
