#!/bin/bash
# Runs every regression mutant (reverted fix) against the checks that are expected to raise it and
# writes /verif/mutants/RESULTS.md.  Modifies /repo's working tree while it runs (restored after each).
cd /verif/mutants || exit 2
OUT=/verif/mutants/RESULTS.md
echo "# Regression mutants (reverted fix commits) vs. quick checks" > $OUT
echo "" >> $OUT
echo "| reverted commit | subject | check | exit | first violation class |" >> $OUT
echo "|---|---|---|---|---|" >> $OUT
run() { # commit, checks...
  c=$1; shift
  subj=$(git -C /repo log --format=%s -1 $c | cut -c1-70)
  res=$(/verif/tools/mutant.sh /verif/mutants/revert_$c.diff "$@" 2>&1 | grep -E "^C[0-9]+ exit")
  while IFS= read -r line; do
    id=$(echo "$line" | cut -d' ' -f1); ex=$(echo "$line" | sed 's/.*exit=\([0-9]*\).*/\1/'); cl=$(echo "$line" | grep -o 'class=[^ ]*' | head -1)
    echo "| $c | $subj | $id | $ex | ${cl:-} |" >> $OUT
  done <<< "$res"
}
run 4d12ac1 C18
run ae59e47 C18
run fe93509 C18
run ccfca1a C08 C03
run f986944 C08
run f34ec66 C08 C02 C04
run 9e26e25 C08
run f99f677 C03 C02
run 98025a7 C04 C07
run d7d9cdb C04
run 2f4595c C15
run 661ff52 C14
run 6980192 C14
run ec81f66 C17
run 36b0a82 C14
run 95e9712 C04
for c in $(ls /verif/mutants/revert_*.diff | sed 's/.*revert_\(.*\)\.diff/\1/'); do grep -q "| $c |" $OUT || run $c C18; done
cat $OUT
