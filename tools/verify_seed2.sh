#!/bin/bash
# usage: verify_seed2.sh <ID> <install-demo.sh> -- <demo command...>
# Like verify_seed.sh, for demonstrations that need more than one file copied (in-crate test
# modules): the baseline runs first on the patched tree without the demonstration, then
# <install-demo.sh> is sourced inside the scratch worktree, the demo runs with the change, the patch
# is reversed and the demo runs without it.
set -u
ID=$1; INSTALL=$2; shift 3
W=/tmp/vseed_$ID
LOG=/tmp/vseed_$ID.log
: > $LOG
git -C /repo worktree remove --force $W >/dev/null 2>&1
git -C /repo worktree add --detach $W HEAD >>$LOG 2>&1 || { echo "worktree failed" >>$LOG; exit 2; }
cd $W
export CARGO_NET_OFFLINE=true CARGO_TARGET_DIR=$W/target
if ! git apply /tmp/seed_${ID}_out/patch.diff >>$LOG 2>&1; then echo "RESULT patch-does-not-apply" >>$LOG; cd /; git -C /repo worktree remove --force $W; exit 1; fi
echo "== baseline with change" >>$LOG
/verif/tools/run_baseline.sh $W $W/target >>$LOG 2>&1; BASE=$?
if [ $BASE -ne 0 ]; then echo "== baseline retry (warm target dir)" >>$LOG; /verif/tools/run_baseline.sh $W $W/target >>$LOG 2>&1; BASE=$?; fi
( . "$INSTALL" ) >>$LOG 2>&1
echo "== demo WITH change: $*" >>$LOG
"$@" >>$LOG 2>&1; WITH=$?
git apply -R /tmp/seed_${ID}_out/patch.diff >>$LOG 2>&1 || echo "REVERSE FAILED" >>$LOG
echo "== demo WITHOUT change" >>$LOG
"$@" >>$LOG 2>&1; WITHOUT=$?
echo "RESULT demo_with_change_exit=$WITH demo_without_change_exit=$WITHOUT baseline_exit=$BASE" >>$LOG
cd /
git -C /repo worktree remove --force $W >/dev/null 2>&1
rm -rf $W
tail -1 $LOG
