#!/bin/bash
# own mutants (written by the harness author, baseline not run for them) vs. the quick check of their property
OUT=/verif/mutants/OWN_RESULTS.md
echo "# Own mutants vs. quick checks" > $OUT
echo "" >> $OUT
echo "| mutant | check | exit | first violation class |" >> $OUT
echo "|---|---|---|---|" >> $OUT
for f in /verif/mutants/own_*.diff; do
  name=$(basename $f .diff); id=$(echo $name | sed 's/own_\(C[0-9]*\)_.*/\1/')
  line=$(/verif/tools/mutant.sh $f $id 2>&1 | grep -E "^C[0-9]+ exit")
  ex=$(echo "$line" | sed 's/.*exit=\([0-9]*\).*/\1/'); cl=$(echo "$line" | grep -o 'class=[^ ]*' | head -1)
  echo "| $name | $id | $ex | ${cl:-} |" >> $OUT
done
cat $OUT
