#!/usr/bin/env python3
"""Writes /tmp/seed_prompts/<ID><suffix>.md: the task for a fresh sub-agent that seeds a realistic
property-breaking change.  The agent gets the property text only (nothing from /verif) plus one-line
summaries of the changes already tried for that property, so that it picks another site."""
import json, sys, os, glob
suffix = sys.argv[1] if len(sys.argv) > 1 else "c"
ids = sys.argv[2:]
props = [json.loads(l) for l in open("/verif/properties.jsonl")]
os.makedirs("/tmp/seed_prompts", exist_ok=True)
for p in props:
    pid = p["id"]
    if ids and pid not in ids:
        continue
    tried = []
    for d in sorted(glob.glob(f"/verif/seeded/{pid}*/meta.json")):
        tried.append(json.load(open(d))["summary"])
    name = pid + suffix
    tried_txt = "\n".join(f"- {t}" for t in tried) or "- (nothing yet)"
    txt = f"""# Task: seed a realistic defect that breaks one semantic property of sine-fdn/polytune

You work ONLY in your own scratch git worktree of the repository, never in /repo itself and never in /verif
(do not read anything under /verif either).

Setup (run once):
    git -C /repo worktree add --detach /tmp/seed_{name} HEAD
    cd /tmp/seed_{name}
    export CARGO_NET_OFFLINE=true CARGO_TARGET_DIR=/tmp/seed_{name}/target
The sandbox has no network; all crates needed are in the cargo cache (always pass --offline).
The workspace is a Rust engine for maliciously-secure MPC (WRK17 authenticated garbling): `src/` is the
`polytune` crate (mpc/protocol.rs, mpc/faand.rs, ot_core/*, channel.rs, utils/file_or_mem_buf.rs, block/, transpose/,
crypto/), `crates/polytune-server-core` is a tokio actor that coordinates policies between parties.
Code behind `#[cfg(feature = "__verif")]` is test instrumentation: do not touch or rely on it.

## The property

id: {pid}
title: {p['title']}

statement: {p['statement']}

quantified over: {p['quantifier']['text']}

why the existing tests cannot settle it: {p['why_tests_cant']}

## Already tried by others (do something DIFFERENT: another site, another mechanism)

{tried_txt}

Also avoid merely re-introducing a defect that a recent `fix:` commit in `git log` repaired.

## What to produce

A change to the *source* of sine-fdn/polytune (not to its tests) that BREAKS this property while
 (a) still compiling,
 (b) still passing the repository's existing test suite. Check with:  /tmp/run_baseline.sh /tmp/seed_{name} /tmp/seed_{name}/target
     (prints BASELINE-OK when all 52 stable tests pass; it takes 5-10 minutes, longer when other runs are queued; a
     handful of other tests are known to fail or flake in this sandbox and are ignored by that script),
 (c) looking like something a developer could plausibly write (a refactoring slip, an "optimisation", a wrong index,
     a check moved or weakened, a reordering) - not sabotage behind an `if input == magic`.
The change must need something SPECIFIC to manifest: a particular interleaving or schedule, a fault or cancel at a
particular point, a multi-step sequence of operations, an unusual input / configuration / size (e.g. only a party role
or batch boundary the tests never use), or two cooperating sites that each look fine alone. Ordinary use (what the
existing tests and examples do) must NOT expose it.

Also produce a demonstration: a test (e.g. a new file under tests/ or a #[cfg(test)] test, or a small example program)
that FAILS with your change and PASSES without it. Run it both ways yourself and record the commands and outputs.
The demonstration may use private APIs through a test inside the crate if that is the only way.

Deliverables, written to /tmp/seed_{name}_out/ :
  - patch.diff   : `git diff` of the source change ONLY (without the demonstration), applies to /repo HEAD with `git apply`
  - demo/        : the demonstration file(s) plus demo/README.md with the exact commands to run it and where the
                   files go in the tree
  - notes.md     : what the change is, why it breaks the property, what it needs in order to manifest,
                   the output of the baseline run (BASELINE-OK line) and of the demonstration with and without the change

Keep the patch small (typically 1-15 changed lines). If your first idea is caught by the existing tests, try another.
Do NOT use `git stash` (the stash is shared by all worktrees of /repo and other agents work in parallel); use `git diff > file` and `git apply [-R] file` instead.

When you are finished: delete the build output (rm -rf /tmp/seed_{name}/target) but leave the worktree and the
deliverables in place. Your final message should be a 5-line summary (file(s) touched, what manifests it).
"""
    open(f"/tmp/seed_prompts/{name}.md", "w").write(txt)
    print("wrote", name)
